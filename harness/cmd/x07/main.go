// x07: policy-mode concurrency - drives the REAL stateful policy-mode plugins under concurrent transactions and records
// invocation / return of every call with what the real code answered, as NDJSON histories for TLC's linearizability
// search (specs/x07_policy_concurrency/PolConcTrace).  Pure executor: no verdicts.
//
//	x07 run <scripts.json> <outdir>
//
// Two levels, chosen per script ("level"):
//
//	"plugin":  the real remedies.ConcurrencyBasedThrottlingPlugin (+ its concurrency.Limiter and MapVacuum goroutines) and
//	           the real remedies.AccountOrchestrationPlugin, built by their constructors on a lock-step clock
//	           (1 tick = 250 ms); time only moves when the script says so and every vacuum goroutine is back asleep
//	           before the next event.
//	"handler": the real routing.Handler of a policy-mode HandlingDataManager (real accessor from a policies.yaml, real
//	           services.Initialize plugins, as cmd/x01) fed with SPOE messages from several goroutines; no clock steps.
//
// scripts.json: [{"level":..,"config":{..},"files":{"1":yaml},"histories":[[event,..],..]},..]
// event: {"ev":"reset","now":t}
//
//	{"ev":"adv","d":d}                                              (plugin level)
//	{"ev":"conc","threads":[[op,..],..]}                            one goroutine per thread, released together
//	{"ev":"tstorm","m":..,"url":..,"scope":"e"|"g","max":n,"st":s,"n":N,"then":"rel"|"keep"|"half"}   (plugin level)
//	{"ev":"pstorm","k":K,"n":N,"it":I}                              (plugin level; N goroutines, I picks each, back to back)
//
// op:    {"op":"take","t":txn,"m":..,"url":..,"scope":..,"max":n,"st":s} | {"op":"rel","t":txn} | {"op":"pick","k":K}
//
//	{"op":"hreq","t":txn,"m":..,"url":..} | {"op":"hres","t":txn,"status":n}
package main

import (
	"fmt"
	"net/http"
	"os"
	"path/filepath"
	"runtime"
	"sort"
	"strings"
	"sync"
	"sync/atomic"
	"time"

	"lunar/engine/actions"
	"lunar/engine/config"
	lunarMessages "lunar/engine/messages"
	"lunar/engine/routing"
	"lunar/engine/runner"
	"lunar/engine/services"
	"lunar/engine/services/remedies"
	"lunar/engine/utils"
	sharedConfig "lunar/shared-model/config"
	contextmanager "lunar/toolkit-core/context-manager"
	"lunar/toolkit-core/verifhook"

	"github.com/negasus/haproxy-spoe-go/action"
	"github.com/negasus/haproxy-spoe-go/message"
	"github.com/negasus/haproxy-spoe-go/payload/kv"
	"github.com/negasus/haproxy-spoe-go/request"

	"verifharness/internal/c11acc"
	"verifharness/internal/c12q"
	"verifharness/internal/vh"
)

const tick = 250 * time.Millisecond

var base = time.Unix(1_700_000_000, 0)

func at(t int64) time.Time { return base.Add(time.Duration(t) * tick) }

type Op struct {
	Op     string `json:"op"`
	T      string `json:"t,omitempty"`
	M      string `json:"m,omitempty"`
	URL    string `json:"url,omitempty"`
	Scope  string `json:"scope,omitempty"`
	Max    int    `json:"max"`
	St     int    `json:"st,omitempty"`
	K      int    `json:"k,omitempty"`
	Status int    `json:"status,omitempty"`
}

type Event struct {
	Ev      string `json:"ev"`
	Now     int64  `json:"now,omitempty"`
	D       int64  `json:"d,omitempty"`
	Threads [][]Op `json:"threads,omitempty"`
	M       string `json:"m,omitempty"`
	URL     string `json:"url,omitempty"`
	Scope   string `json:"scope,omitempty"`
	Max     int    `json:"max"`
	St      int    `json:"st,omitempty"`
	N       int    `json:"n,omitempty"`
	K       int    `json:"k,omitempty"`
	Then    string `json:"then,omitempty"`
	It      int    `json:"it,omitempty"` // pstorm: picks per goroutine, back to back (default 1)
}

type Script struct {
	Level     string            `json:"level"`
	Config    map[string]any    `json:"config"`
	Files     map[string]string `json:"files"`
	Histories [][]Event         `json:"histories"`
}

// ---------------------------------------------------------------- observation of actions

type Act struct {
	K  string      `json:"k"`
	St int         `json:"st"`
	B  string      `json:"b"`
	H  [][2]string `json:"h"`
}

func hpairs(m map[string]string) [][2]string {
	out := make([][2]string, 0, len(m))
	for k, v := range m {
		out = append(out, [2]string{k, v})
	}
	sort.Slice(out, func(i, j int) bool { return out[i][0] < out[j][0] })
	return out
}

// snapshot of a real action object (direct field reads)
func actOf(x any, err error) Act {
	a := Act{H: [][2]string{}}
	if err != nil {
		a.K = "error:" + err.Error()
		return a
	}
	switch v := x.(type) {
	case *actions.NoOpAction:
		a.K = "noop"
	case *actions.EarlyResponseAction:
		a.K, a.St, a.B, a.H = "early", v.Status, v.Body, hpairs(v.Headers)
	case *actions.ModifyRequestAction:
		a.K, a.H = "modreq", hpairs(v.HeadersToSet)
		if v.Host != "" || v.Path != "" || v.QueryParams != "" || v.Body != "" {
			a.K = "modreq+"
		}
	default:
		a.K = fmt.Sprintf("other:%T", x)
	}
	return a
}

func goid() uint64 {
	var buf [64]byte
	n := runtime.Stack(buf[:], false)
	var id uint64
	for _, c := range buf[len("goroutine "):n] {
		if c < '0' || c > '9' {
			break
		}
		id = id*10 + uint64(c-'0')
	}
	return id
}

var (
	obsMu    sync.Mutex
	reqActs  = map[uint64][]Act{} // handler level: the remedy actions of the message handled by that goroutine
	respActs = map[uint64][]Act{}
	vacStart atomic.Int64 // ConcurrencyLimiter vacuum goroutines started (since the last reset of the counter)
	vacTotal atomic.Int64
)

func sink(point string, kv ...any) {
	switch point {
	case "runner.req_action", "runner.resp_action":
		if len(kv) != 1 {
			return
		}
		g := goid()
		obsMu.Lock()
		if point == "runner.req_action" {
			if _, ok := reqActs[g]; ok {
				reqActs[g] = append(reqActs[g], actOf(kv[0], nil))
			}
		} else if _, ok := respActs[g]; ok {
			respActs[g] = append(respActs[g], actOf(kv[0], nil))
		}
		obsMu.Unlock()
	case "vacuum.start":
		if len(kv) == 2 && fmt.Sprint(kv[1]) == "ConcurrencyLimiter" {
			vacStart.Add(1)
			vacTotal.Add(1)
		}
	}
}

func watch() uint64 {
	g := goid()
	obsMu.Lock()
	reqActs[g], respActs[g] = []Act{}, []Act{}
	obsMu.Unlock()
	return g
}

func collect(g uint64) ([]Act, []Act) {
	obsMu.Lock()
	defer obsMu.Unlock()
	a, b := reqActs[g], respActs[g]
	delete(reqActs, g)
	delete(respActs, g)
	return a, b
}

// ---------------------------------------------------------------- plugin level

type plug struct {
	clk  *c12q.Clock
	now  int64
	conc *remedies.ConcurrencyBasedThrottlingPlugin
	acct *remedies.AccountOrchestrationPlugin
}

const maxAccounts = 8

var (
	acctNames = func() []sharedConfig.AccountID {
		out := []sharedConfig.AccountID{}
		for i := 0; i < maxAccounts; i++ {
			out = append(out, sharedConfig.AccountID(fmt.Sprintf("a%d", i)))
		}
		return out
	}()
	acctMap = func() map[sharedConfig.AccountID]sharedConfig.Account {
		out := map[sharedConfig.AccountID]sharedConfig.Account{}
		for i := 0; i < maxAccounts; i++ {
			out[sharedConfig.AccountID(fmt.Sprintf("a%d", i))] = sharedConfig.Account{
				Tokens: []sharedConfig.Token{{Header: &sharedConfig.Header{Name: "x-acct", Value: fmt.Sprintf("v%d", i)}}},
			}
		}
		return out
	}()
)

func newPlug(now int64, ttlTicks int64) *plug {
	clk := c12q.NewClock(at(now))
	vacStart.Store(0)
	return &plug{
		clk:  clk,
		now:  now,
		conc: remedies.NewConcurrencyBasedThrottlingPlugin(clk, time.Duration(ttlTicks)*tick),
		acct: remedies.NewAccountOrchestrationPlugin(),
	}
}

// settle: every vacuum goroutine that was started is asleep on the clock again (each holds exactly one armed timer).
// Falls back to the goroutine-dump quiescence test when the count does not settle (a variant of the code whose vacuum
// goroutines do not map one-to-one onto timers); never a verdict.
func (p *plug) settle() {
	deadline := time.Now().Add(2 * time.Second)
	for i := 0; ; i++ {
		if int64(p.clk.Pending()) == vacStart.Load() {
			return
		}
		if time.Now().After(deadline) {
			break
		}
		if i < 100 {
			runtime.Gosched()
		} else {
			time.Sleep(50 * time.Microsecond)
		}
	}
	if !c12q.Quiesce(10 * time.Second) {
		vh.Die("plugin level: the vacuum goroutines never came to rest")
	}
}

// advance moves the clock tick by tick; after every tick the vacuum passes that were due have run. One "adv" event per
// tick is recorded (the specification may have to place the reclaiming of a lost slot between two ticks).
func (p *plug) advance(d int64, tr *vh.Trace) {
	p.settle()
	for i := int64(0); i < d; i++ {
		p.now++
		p.clk.SetNow(at(p.now))
		if p.clk.FireDue() > 0 {
			p.settle()
		}
		tr.Add(vh.Ev{"ev": "adv", "d": 1})
	}
}

func scopedConc(op Op) config.ScopedRemedy {
	rem := &sharedConfig.Remedy{
		Enabled: true, Name: "x07",
		Config: sharedConfig.RemedyConfig{ConcurrencyBasedThrottling: &sharedConfig.ConcurrencyBasedThrottlingConfig{
			MaxConcurrentRequests: op.Max, ResponseStatusCode: op.St,
		}},
	}
	if op.Scope == "g" { // as runner.appendGlobalRemedies builds it
		return config.ScopedRemedy{Scope: utils.ScopeGlobal, Remedy: rem}
	}
	return config.ScopedRemedy{Scope: utils.ScopeEndpoint, Method: op.M, NormalizedURL: op.URL, Remedy: rem}
}

var relRemedy = scopedConc(Op{Scope: "g", Max: 1, St: 429})

func (p *plug) take(op Op) Act {
	a, err := p.conc.OnRequest(lunarMessages.OnRequest{ID: op.T, Method: op.M, URL: op.URL, Headers: map[string]string{}}, scopedConc(op))
	return actOf(a, err)
}

func (p *plug) rel(txn string) Act {
	a, err := p.conc.OnResponse(lunarMessages.OnResponse{ID: txn, Status: 200, Headers: map[string]string{}}, relRemedy)
	return actOf(a, err)
}

func (p *plug) pick(k int) Act {
	a, err := p.acct.OnRequest(lunarMessages.OnRequest{ID: "p", Method: "GET", URL: "api.test/p", Headers: map[string]string{}},
		&sharedConfig.AccountOrchestrationConfig{RoundRobin: acctNames[:k]}, acctMap)
	return actOf(a, err)
}

func isAdmit(a Act) bool { return a.K == "noop" }
func isRefuse(a Act, st int) bool {
	return a.K == "early" && a.St == st && a.B == "Too many requests" && len(a.H) == 1 && a.H[0] == [2]string{"content-type", "text/plain"}
}

// the index of the account whose token a pick set (-1: anything else)
func pickIndex(a Act) int {
	if a.K != "modreq" || len(a.H) != 1 || a.H[0][0] != "x-acct" || !strings.HasPrefix(a.H[0][1], "v") {
		return -1
	}
	var i int
	if _, err := fmt.Sscanf(a.H[0][1], "v%d", &i); err != nil {
		return -1
	}
	return i
}

// spin barrier: all goroutines of a batch reach the real code together
func barrier(arrived *atomic.Int32, n int32) {
	arrived.Add(1)
	for spins := 0; arrived.Load() < n && spins < 1_000_000; spins++ {
		runtime.Gosched()
	}
}

func runPlugin(sc *Script, tr *vh.Trace, uid *atomic.Int64) {
	ttl := int64(sc.Config["ttl"].(float64))
	var p *plug
	for _, h := range sc.Histories {
		for _, e := range h {
			if p == nil && e.Ev != "reset" {
				vh.Die("history does not start with reset")
			}
			switch e.Ev {
			case "reset":
				p = newPlug(e.Now, ttl)
				tr.Add(vh.Ev{"ev": "reset", "now": e.Now})
			case "adv":
				p.advance(e.D, tr)
			case "conc":
				var wg sync.WaitGroup
				var arrived atomic.Int32
				n := int32(len(e.Threads))
				for _, th := range e.Threads {
					wg.Add(1)
					go func(ops []Op) {
						defer wg.Done()
						barrier(&arrived, n)
						for _, op := range ops {
							id := uid.Add(1)
							b := tr.Stamp()
							switch op.Op {
							case "take":
								a := p.take(op)
								tr.AddAt(b, vh.Ev{"ev": "begin", "id": id, "op": "take", "t": op.T, "m": op.M, "url": op.URL,
									"scope": op.Scope, "max": op.Max, "st": op.St, "act": a})
							case "rel":
								a := p.rel(op.T)
								tr.AddAt(b, vh.Ev{"ev": "begin", "id": id, "op": "rel", "t": op.T, "act": a})
							case "pick":
								a := p.pick(op.K)
								tr.AddAt(b, vh.Ev{"ev": "begin", "id": id, "op": "pick", "k": op.K, "act": a, "out": pickIndex(a)})
							default:
								vh.Die("plugin level: unknown op %q", op.Op)
							}
							tr.Add(vh.Ev{"ev": "end", "id": id})
						}
					}(th)
				}
				wg.Wait()
			case "tstorm":
				var wg sync.WaitGroup
				var arrived atomic.Int32
				var mu sync.Mutex
				ts, adm, bad := []string{}, []string{}, 0
				for i := 0; i < e.N; i++ {
					txn := fmt.Sprintf("s%d", uid.Add(1))
					ts = append(ts, txn)
					wg.Add(1)
					go func() {
						defer wg.Done()
						barrier(&arrived, int32(e.N))
						a := p.take(Op{T: txn, M: e.M, URL: e.URL, Scope: e.Scope, Max: e.Max, St: e.St})
						mu.Lock()
						if isAdmit(a) {
							adm = append(adm, txn)
						} else if !isRefuse(a, e.St) {
							bad++
						}
						mu.Unlock()
					}()
				}
				wg.Wait()
				sort.Strings(adm)
				tr.Add(vh.Ev{"ev": "tbatch", "m": e.M, "url": e.URL, "scope": e.Scope, "max": e.Max, "st": e.St,
					"ts": ts, "adm": adm, "bad": bad})
				back := adm
				switch e.Then {
				case "keep":
					back = nil
				case "half":
					back = adm[:len(adm)/2]
				}
				if len(back) > 0 { // give the slots back, one response at a time (recorded in compact form)
					bad := 0
					for _, txn := range back {
						if a := p.rel(txn); a.K != "noop" {
							bad++
						}
					}
					tr.Add(vh.Ev{"ev": "rbatch", "ts": back, "bad": bad})
				}
			case "pstorm":
				var wg sync.WaitGroup
				var arrived atomic.Int32
				var mu sync.Mutex
				cnt := make([]int, e.K)
				bad := 0
				iters := e.It
				if iters < 1 {
					iters = 1
				}
				for i := 0; i < e.N; i++ {
					wg.Add(1)
					go func() {
						defer wg.Done()
						barrier(&arrived, int32(e.N))
						mine := make([]int, e.K)
						myBad := 0
						for it := 0; it < iters; it++ {
							if j := pickIndex(p.pick(e.K)); j >= 0 && j < e.K {
								mine[j]++
							} else {
								myBad++
							}
						}
						mu.Lock()
						for j := range mine {
							cnt[j] += mine[j]
						}
						bad += myBad
						mu.Unlock()
					}()
				}
				wg.Wait()
				tr.Add(vh.Ev{"ev": "pbatch", "k": e.K, "n": e.N * iters, "cnt": cnt, "bad": bad})
			default:
				vh.Die("plugin level: unknown event %q", e.Ev)
			}
		}
		if p != nil {
			p.settle()
			tr.Add(vh.Ev{"ev": "stats", "vacuums": vacStart.Load(), "timers": p.clk.Pending()})
		}
	}
}

// ---------------------------------------------------------------- handler level (fixture as cmd/x01)

type recWriter struct{}

func (w *recWriter) Write(b []byte) (int, error) { return len(b), nil }
func (w *recWriter) Close() error                { return nil }

type engine struct {
	dir     string
	dm      *routing.HandlingDataManager
	handler routing.MessageHandler
	mu      sync.Mutex
	txn     map[string][2]string // id -> method, url
	early   map[string]bool      // transactions the engine answered itself: the proxy never sends their response
}

func newEngine(dir string, policies string, ttlTicks int64) (*engine, error) {
	if err := os.MkdirAll(dir, 0o755); err != nil {
		vh.Die("mkdir: %v", err)
	}
	path := filepath.Join(dir, "policies.yaml")
	os.Setenv("LUNAR_PROXY_POLICIES_CONFIG", path)
	os.Setenv("LUNAR_PROXY_CONFIG_DIR", dir)
	if err := os.WriteFile(path, []byte(policies), 0o644); err != nil {
		vh.Die("write policies: %v", err)
	}
	contextmanager.Get().SetMockClock()
	contextmanager.Get().GetMockClock().Set(base)
	build, err := config.BuildInitialFromFile()
	if err != nil {
		return nil, err
	}
	w := &recWriter{}
	svc, err := services.Initialize(w, time.Duration(ttlTicks)*tick, build.Initial.Config.Exporters)
	if err != nil {
		vh.Die("services.Initialize: %v", err)
	}
	e := &engine{dir: dir, txn: map[string][2]string{}, early: map[string]bool{}}
	e.dm = routing.VerifNewPolicyModeManager(build, svc, runner.NewDiagnosisWorker(), w)
	e.dm.SetHandleRoutes(http.NewServeMux())
	e.handler = routing.Handler(e.dm)
	return e, nil
}

func (e *engine) close() {
	e.dm.StopDiagnosisWorker()
	os.RemoveAll(e.dir)
}

func (e *engine) spoe(name string, args [][2]any) (action.Actions, bool) {
	k := kv.NewKV()
	for _, a := range args {
		k.Add(a[0].(string), a[1])
	}
	req := &request.Request{Messages: &message.Messages{{Name: name, KV: k}}}
	e.handler(req)
	return req.Actions, req.Actions != nil
}

// what was handed to the proxy, reduced to the fields the specification talks about
type Answer struct {
	Answered bool     `json:"answered"`
	Early    bool     `json:"early"`
	St       int      `json:"st"`
	Body     string   `json:"body"`
	ModReq   bool     `json:"modreq"`
	Qh       string   `json:"qh"`
	Names    []string `json:"names"`
}

func decode(as action.Actions, ok bool) Answer {
	o := Answer{Answered: ok, St: -1, Names: []string{}}
	for _, a := range as {
		if a.Type != action.TypeSetVar {
			continue
		}
		switch a.Name {
		case "request_active_remedies", "response_active_remedies":
			continue
		}
		o.Names = append(o.Names, a.Name)
		switch a.Name {
		case actions.ReturnEarlyResponseActionName:
			o.Early, _ = a.Value.(bool)
		case actions.StatusCodeActionName:
			switch x := a.Value.(type) {
			case int:
				o.St = x
			case int32:
				o.St = int(x)
			case int64:
				o.St = int(x)
			}
		case actions.ResponseBodyActionName:
			switch x := a.Value.(type) {
			case string:
				o.Body = x
			case []byte:
				o.Body = string(x)
			}
		case actions.ModifyRequestActionName:
			o.ModReq, _ = a.Value.(bool)
		case actions.RequestHeadersActionName:
			switch x := a.Value.(type) {
			case string:
				o.Qh = x
			case []byte:
				o.Qh = string(x)
			}
		}
	}
	sort.Strings(o.Names)
	return o
}

func (e *engine) hreq(op Op) vh.Ev {
	e.mu.Lock()
	e.txn[op.T] = [2]string{op.M, op.URL}
	e.mu.Unlock()
	host, path := op.URL, "/"
	if i := strings.Index(op.URL, "/"); i >= 0 {
		host, path = op.URL[:i], op.URL[i:]
	}
	g := watch()
	as, ok := e.spoe("lunar-on-request", [][2]any{
		{"id", op.T}, {"sequence_id", op.T}, {"method", op.M}, {"scheme", "https"}, {"url", op.URL},
		{"path", path}, {"query", ""}, {"headers", fmt.Sprintf("host: %s\r\n", host)}, {"body", []byte("")},
	})
	ra, pa := collect(g)
	ans := decode(as, ok)
	e.mu.Lock()
	e.early[op.T] = ans.Early
	e.mu.Unlock()
	return vh.Ev{"op": "hreq", "t": op.T, "m": op.M, "url": op.URL, "acts": ra, "racts": pa, "ans": ans}
}

func (e *engine) hres(op Op) vh.Ev {
	e.mu.Lock()
	mu, known := e.txn[op.T]
	e.mu.Unlock()
	if !known {
		vh.Die("response for unknown transaction %s", op.T)
	}
	g := watch()
	as, ok := e.spoe("lunar-on-response", [][2]any{
		{"id", op.T}, {"sequence_id", op.T}, {"method", mu[0]}, {"url", mu[1]}, {"status", int64(op.Status)},
		{"headers", "content-type: text/plain\r\n"}, {"body", []byte("")},
	})
	ra, pa := collect(g)
	return vh.Ev{"op": "hres", "t": op.T, "m": mu[0], "url": mu[1], "acts": ra, "racts": pa, "ans": decode(as, ok)}
}

func runHandler(sc *Script, tr *vh.Trace, uid *atomic.Int64, outdir string, engines *int) {
	ttl := int64(sc.Config["ttl"].(float64))
	var e *engine
	for _, h := range sc.Histories {
		for _, ev := range h {
			if e == nil && ev.Ev != "reset" {
				vh.Die("history does not start with reset")
			}
			switch ev.Ev {
			case "reset":
				if e != nil {
					e.close()
				}
				*engines++
				var err error
				e, err = newEngine(filepath.Join(outdir, fmt.Sprintf("eng-%d", *engines)), sc.Files["1"], ttl)
				if err != nil {
					vh.Die("policies file rejected: %v", err)
				}
				tr.Add(vh.Ev{"ev": "reset", "now": 0})
			case "conc":
				var wg sync.WaitGroup
				var arrived atomic.Int32
				n := int32(len(ev.Threads))
				for _, th := range ev.Threads {
					wg.Add(1)
					go func(ops []Op) {
						defer wg.Done()
						barrier(&arrived, n)
						for _, op := range ops {
							id := uid.Add(1)
							b := tr.Stamp()
							var rec vh.Ev
							switch op.Op {
							case "hreq":
								rec = e.hreq(op)
							case "hres":
								e.mu.Lock()
								skip := e.early[op.T]
								e.mu.Unlock()
								if skip {
									continue // answered by the engine: there is no provider response (script bookkeeping)
								}
								rec = e.hres(op)
							default:
								vh.Die("handler level: unknown op %q", op.Op)
							}
							rec["ev"], rec["id"] = "begin", id
							tr.AddAt(b, rec)
							tr.Add(vh.Ev{"ev": "end", "id": id})
						}
					}(th)
				}
				wg.Wait()
			default:
				vh.Die("handler level: unknown event %q", ev.Ev)
			}
		}
	}
	if e != nil {
		e.close()
	}
}

func main() {
	vh.Quiet()
	if len(os.Args) != 4 || os.Args[1] != "run" {
		vh.Die("usage: x07 run <scripts.json> <outdir>")
	}
	verifhook.SetSink(sink)
	var scripts []Script
	vh.ReadJSON(os.Args[2], &scripts)
	var uid atomic.Int64
	engines := 0
	fakeUp := false
	for si := range scripts {
		sc := &scripts[si]
		tr := vh.NewTrace()
		cfg := vh.Ev{"ev": "config", "level": sc.Level}
		for k, v := range sc.Config {
			cfg[k] = v
		}
		tr.Add(cfg)
		switch sc.Level {
		case "plugin":
			runPlugin(sc, tr, &uid)
		case "handler":
			if !fakeUp {
				// the validations routing.initializePolicies registers at start-up, and the loopback stand-in of the HAProxy admin API
				sharedConfig.Validate.RegisterStructValidation(config.ValidateStructLevel,
					sharedConfig.Remedy{}, sharedConfig.Diagnosis{}, sharedConfig.PoliciesConfig{})
				if err := sharedConfig.Validate.RegisterValidation("validateInt", config.ValidateInt); err != nil {
					vh.Die("register validation: %v", err)
				}
				c11acc.StartFake(os.Getenv("HAPROXY_MANAGE_ENDPOINTS_PORT"), os.Getenv("LUNAR_HEALTHCHECK_PORT"))
				fakeUp = true
			}
			runHandler(sc, tr, &uid, os.Args[3], &engines)
		default:
			vh.Die("unknown level %q", sc.Level)
		}
		tr.Write(filepath.Join(os.Args[3], fmt.Sprintf("trace-%03d.ndjson", si)))
	}
}
