// x03: quota spillover. Executes scripts against the real code and records what it answered
// (NDJSON traces for TLC); nothing here judges an outcome.
//
//	x03 policy <scripts.json> <outdir>   real StrategyBasedThrottlingPlugin.OnRequest (+ limit.RateLimitState, metric read
//	                                     = IncrementableRateLimitState.Counters) with spillover_config on the mock clock
//	x03 flows  <scripts.json> <outdir>   real flows-mode engine (streams.Stream from generated YAML with a `spillover`
//	                                     section and `monthly_renewal`) on the mock clock
//
// One tick = 1 s. Instant t of a script is base + t seconds; base = 2023-02-16 00:00:00 UTC, a multiple of every window
// length used (1,2,3,5,7,60,3600,86400 s divide 77 days), so tick t lies in epoch-grid window t div W.
package main

import (
	"context"
	"fmt"
	"os"
	"path/filepath"
	"time"

	"lunar/engine/actions"
	"lunar/engine/config"
	lunarMessages "lunar/engine/messages"
	"lunar/engine/services/remedies"
	"lunar/engine/utils"
	"lunar/engine/utils/limit"
	"lunar/engine/utils/obfuscation"
	sharedConfig "lunar/shared-model/config"
	"lunar/toolkit-core/clock"
	"lunar/toolkit-core/logging"

	"verifharness/internal/c01eng"
	"verifharness/internal/vh"
)

const (
	baseSec = int64(252 * 6652800) // 2023-02-16T00:00:00Z
	header  = "X-Group"
)

func at(t int64) time.Time { return time.Unix(baseSec+t, 0).UTC() }

// ---------------------------------------------------------------------------------------------- policy mode

type PConfig struct {
	Groups   []string       `json:"groups"` // ["-"] = ungrouped remedy
	Pct      map[string]int `json:"Pct"`
	A        int64          `json:"A"`
	W        int64          `json:"W"` // seconds
	RenewDay int            `json:"RenewDay"`
	Enabled  *bool          `json:"enabled,omitempty"` // default true
}

type Event struct {
	Ev   string `json:"ev"`
	Now  int64  `json:"now,omitempty"`
	D    int64  `json:"d,omitempty"`
	G    string `json:"g,omitempty"`
	N    int    `json:"n,omitempty"`
	Q    string `json:"q,omitempty"`
	Cost int64  `json:"cost,omitempty"`
}

type PScript struct {
	Config    PConfig   `json:"config"`
	Histories [][]Event `json:"histories"`
}

func grouped(c PConfig) bool { return !(len(c.Groups) == 1 && c.Groups[0] == "-") }

func remedyOf(c PConfig) config.ScopedRemedy {
	enabled := true
	if c.Enabled != nil {
		enabled = *c.Enabled
	}
	cfg := &sharedConfig.StrategyBasedThrottlingConfig{
		AllowedRequestCount: c.A,
		WindowSizeInSeconds: int(c.W),
		SpilloverConfig:     sharedConfig.SpilloverConfig{Enabled: enabled, RenewOnDay: c.RenewDay},
	}
	if grouped(c) {
		ga := &sharedConfig.GroupQuotaAllocation{
			GroupBy: &sharedConfig.GroupBy{HeaderName: header},
			Default: "block",
		}
		for _, g := range c.Groups {
			ga.Groups = append(ga.Groups, sharedConfig.QuotaAllocation{
				GroupHeaderValue: g, AllocationPercentage: float64(c.Pct[g]),
			})
		}
		cfg.GroupQuotaAllocation = ga
	}
	return config.ScopedRemedy{
		Scope: utils.ScopeEndpoint, Method: "GET", NormalizedURL: "api.test/x",
		Remedy: &sharedConfig.Remedy{
			Name:   "r1",
			Config: sharedConfig.RemedyConfig{StrategyBasedThrottling: cfg},
		},
	}
}

type prunner struct {
	cfg    PConfig
	clk    *clock.MockClock
	state  limit.IncrementableRateLimitState
	plugin *remedies.StrategyBasedThrottlingPlugin
	rem    config.ScopedRemedy
}

func (rn *prunner) fresh(now int64) {
	rn.clk = clock.NewMockClock()
	rn.clk.Set(at(now))
	rn.state = limit.NewRateLimitState(rn.clk, logging.ContextLogger{})
	p, err := remedies.NewStrategyBasedThrottlingPlugin(context.Background(), rn.clk, nil, rn.state,
		obfuscation.Obfuscator{Hasher: obfuscation.MD5Hasher{}})
	if err != nil {
		vh.Die("plugin: %v", err)
	}
	rn.plugin = p
}

func (rn *prunner) request(g string) string {
	h := map[string]string{}
	if grouped(rn.cfg) {
		h[header] = g
	}
	a, err := rn.plugin.OnRequest(lunarMessages.OnRequest{ID: "t", Method: "GET", URL: "api.test/x", Headers: h}, rn.rem)
	if err != nil {
		return "error:" + err.Error()
	}
	switch v := a.(type) {
	case *actions.NoOpAction:
		return "pass"
	case *actions.EarlyResponseAction:
		if v.Status != 429 {
			return fmt.Sprintf("block-status-%d", v.Status)
		}
		return "block"
	default:
		return fmt.Sprintf("other:%T", a)
	}
}

// calendar facts of a clock advance from tick `from` to tick `to` (input description, UTC):
// day of month at `to`; whether some / every whole-second instant in (from, to] lies on day-of-month `day`
func calendar(from, to int64, day int) (dom int, crossed, all bool) {
	dom = at(to).Day()
	all = true
	first := at(from + 1)
	d := time.Date(first.Year(), first.Month(), first.Day(), 0, 0, 0, 0, time.UTC)
	for !d.After(at(to)) {
		if d.Day() == day {
			crossed = true
		} else {
			all = false
		}
		d = d.AddDate(0, 0, 1)
	}
	return
}

func runPolicy(in, outdir string) {
	var scripts []PScript
	vh.ReadJSON(in, &scripts)
	for si, sc := range scripts {
		tr := vh.NewTrace()
		tr.Add(vh.Ev{"ev": "config", "groups": sc.Config.Groups, "Pct": sc.Config.Pct, "A": sc.Config.A,
			"W": sc.Config.W, "RenewDay": sc.Config.RenewDay})
		rn := &prunner{cfg: sc.Config, rem: remedyOf(sc.Config)}
		for _, h := range sc.Histories {
			var now int64
			for _, e := range h {
				switch e.Ev {
				case "reset":
					now = e.Now
					if now < 0 {
						vh.Die("negative instant %d", now)
					}
					rn.fresh(now)
					tr.Add(vh.Ev{"ev": "reset", "now": now, "dom": at(now).Day()})
				case "adv":
					dom, crossed, all := calendar(now, now+e.D, sc.Config.RenewDay)
					now += e.D
					rn.clk.Set(at(now))
					tr.Add(vh.Ev{"ev": "adv", "d": e.D, "dom": dom, "crossed": crossed, "allrenew": all})
				case "req":
					tr.Add(vh.Ev{"ev": "req", "g": e.G, "out": rn.request(e.G)})
				case "burst":
					passes := 0
					for i := 0; i < e.N; i++ {
						switch out := rn.request(e.G); out {
						case "pass":
							passes++
						case "block":
						default:
							vh.Die("burst: unexpected answer %s", out)
						}
					}
					tr.Add(vh.Ev{"ev": "batch", "g": e.G, "n": e.N, "passes": passes})
				case "read":
					_ = rn.state.Counters()
					tr.Add(vh.Ev{"ev": "read"})
				default:
					vh.Die("unknown event %q", e.Ev)
				}
			}
		}
		tr.Write(filepath.Join(outdir, fmt.Sprintf("trace-%03d.ndjson", si)))
	}
}

// ---------------------------------------------------------------------------------------------- flows mode

type FScript struct {
	Config     map[string]any    `json:"config"`
	Files      map[string]string `json:"files"`
	Header     string            `json:"header"`
	CostHeader string            `json:"cost_header"`
	Renew      *Renewal          `json:"renew,omitempty"`
	Histories  [][]Event         `json:"histories"`
}

// Renewal is the configured monthly renewal instant (UTC), used only to describe clock advances
type Renewal struct {
	Day    int `json:"day"`
	Hour   int `json:"hour"`
	Minute int `json:"minute"`
}

// renewalIn reports whether a monthly renewal instant lies in (from, to]
func renewalIn(r *Renewal, from, to int64) bool {
	if r == nil {
		return false
	}
	a, b := at(from), at(to)
	m := time.Date(a.Year(), a.Month(), 1, 0, 0, 0, 0, time.UTC)
	for !m.After(b) {
		x := time.Date(m.Year(), m.Month(), r.Day, r.Hour, r.Minute, 0, 0, time.UTC)
		if x.Month() == m.Month() && x.After(a) && !x.After(b) {
			return true
		}
		m = m.AddDate(0, 1, 0)
	}
	return false
}

func runFlows(in, outdir string) {
	var scripts []FScript
	vh.ReadJSON(in, &scripts)
	for si := range scripts {
		sc := &scripts[si]
		dir, err := c01eng.WriteFiles(sc.Files)
		if err != nil {
			vh.Die("files: %v", err)
		}
		tr := vh.NewTrace()
		cfg := vh.Ev{"ev": "config"}
		for k, v := range sc.Config {
			cfg[k] = v
		}
		tr.Add(cfg)
		var eng *c01eng.Engine
		for _, h := range sc.Histories {
			var now int64
			seq := 0
			for _, e := range h {
				switch e.Ev {
				case "reset":
					now = e.Now
					if now < 0 {
						vh.Die("negative instant %d", now)
					}
					eng, err = c01eng.New(dir, at(now), eng)
					if err != nil {
						vh.Die("engine: %v", err)
					}
					seq = 0
					tr.Add(vh.Ev{"ev": "reset", "now": now})
				case "adv":
					ren := renewalIn(sc.Renew, now, now+e.D)
					now += e.D
					eng.Clk.Set(at(now))
					tr.Add(vh.Ev{"ev": "adv", "d": e.D, "renew": ren})
				case "arrive":
					id := fmt.Sprintf("s%d", seq%3)
					seq++
					hd := map[string]string{}
					if e.G != "default" && e.G != "" {
						hd[sc.Header] = e.G
					}
					if sc.CostHeader != "" {
						hd[sc.CostHeader] = fmt.Sprintf("%d", e.Cost)
					}
					res := eng.Request(id, "GET", "api.test/"+e.Q, hd)
					out := "admit"
					if res.Err != "" {
						out = "error:" + res.Err
					} else if res.Early {
						out = "refuse"
					}
					tr.Add(vh.Ev{"ev": "arrive", "q": e.Q, "g": e.G, "cost": e.Cost, "out": out})
				case "resetin":
					if qr, err := eng.S.VerifQuota(e.Q); err == nil {
						_ = qr.ResetIn()
					}
					tr.Add(vh.Ev{"ev": "resetin", "q": e.Q})
				default:
					vh.Die("unknown event %q", e.Ev)
				}
			}
		}
		if eng != nil {
			eng.Close()
		}
		tr.Write(filepath.Join(outdir, fmt.Sprintf("trace-%03d.ndjson", si)))
		os.RemoveAll(dir)
	}
}

func main() {
	vh.Quiet()
	time.Local = time.UTC
	if len(os.Args) != 4 {
		vh.Die("usage: x03 policy|flows <scripts.json> <outdir>")
	}
	switch os.Args[1] {
	case "policy":
		runPolicy(os.Args[2], os.Args[3])
	case "flows":
		runFlows(os.Args[2], os.Args[3])
	default:
		vh.Die("usage: x03 policy|flows <scripts.json> <outdir>")
	}
}
