// c18h reload: transactions through the real routing.Handler WHILE the flows are reloaded through the real admin handlers
// (POST /load_flows, PUT /apply_flows, PUT /configuration) of the same HandlingDataManager.  Pure executor.
//
// script: {"histories":[{"v0":Ver,"reloads":[{"to":Ver,"route":"load_flows|apply_flows|configuration"},...],"g":G,"cap":n,"hooks":b}]}
// Ver = {"a":status,"x":status,"valid":b}: the flow on rl.test/a answers with that status (GenerateResponse), the flow on
// rl.test/x exists only when x != 0; valid=false adds a flow file that fails validation (the reload must fail and change nothing).
//
// trace (outdir/trace-000.ndjson), judged by ReloadLinTrace:
//
//	{"ev":"config","urls":["a","x"]}
//	{"ev":"reset","conf":{"a":s,"x":s}}                           configuration in force (loaded through /load_flows)
//	{"ev":"begin","id":i,"op":"reload","to":{..},"ok":b,"route":r} ... {"ev":"end","id":i}     one reload call; ok = answered 2xx
//	{"ev":"begin","id":i,"op":"req","url":u,"out":s,"n":k} ... {"ev":"end","id":i}
//	     k consecutive transactions of ONE goroutine to url u that all got verdict s (status of the early response, 0 = no
//	     early response); begin = invocation of the first, end = return of the last.  A run ends when the verdict changes, when
//	     a reload call begins or ends, and - while a reload call is in progress - after `cap` transactions.
package main

import (
	"bytes"
	"encoding/base64"
	"encoding/json"
	"fmt"
	"net/http"
	"net/http/httptest"
	"path/filepath"
	"sync"
	"sync/atomic"
	"time"

	"verifharness/internal/vh"
)

type RVer struct {
	A     int  `json:"a"`
	X     int  `json:"x"`
	Valid bool `json:"valid"`
}

type RReload struct {
	To    RVer   `json:"to"`
	Route string `json:"route"`
}

type RHist struct {
	V0      RVer      `json:"v0"`
	Reloads []RReload `json:"reloads"`
	G       int       `json:"g"`
	Cap     int       `json:"cap"`
	Hooks   bool      `json:"hooks"` // one transaction per URL at hdm.initialized and at hdm.published, inside the reload call
}

type RScript struct {
	Histories []RHist `json:"histories"`
}

func genFlow(name, url string, status int) string {
	return fmt.Sprintf(`name: %[1]s
filter:
  url: %[2]s
  method: [GET]
processors:
  M%[1]s:
    processor: UserDefinedMetrics
    parameters:
      - key: metric_name
        value: m%[1]s
  P%[1]s:
    processor: GenerateResponse
    parameters:
      - key: status
        value: %[3]d
      - key: body
        value: %[1]s
      - key: Content-Type
        value: text/plain
flow:
  request:
    - from:
        stream:
          name: globalStream
          at: start
      to:
        processor:
          name: M%[1]s
    - from:
        processor:
          name: M%[1]s
      to:
        processor:
          name: P%[1]s
  response:
    - from:
        processor:
          name: P%[1]s
      to:
        stream:
          name: globalStream
          at: end
`, name, url, status)
}

const badFlow = `name: rl_bad
filter:
  url: rl.test/bad
processors:
  PB:
    processor: GenerateResponse
flow:
  request:
    - from:
        stream:
          name: globalStream
          at: start
      to:
        processor:
          name: missingProcessor
  response:
    - from:
        processor:
          name: missingProcessor
      to:
        stream:
          name: globalStream
          at: end
`

func versionFiles(v RVer) map[string]string {
	f := map[string]string{"flows/rl_base.yaml": genFlow("rl_base", "rl.test/base", 200)}
	if v.A != 0 {
		f["flows/rl_a.yaml"] = genFlow("rl_a", "rl.test/a", v.A)
	}
	if v.X != 0 {
		f["flows/rl_x.yaml"] = genFlow("rl_x", "rl.test/x", v.X)
	}
	if !v.Valid {
		f["flows/rl_bad.yaml"] = badFlow
	}
	return f
}

func confOf(v RVer) vh.Ev { return vh.Ev{"a": v.A, "x": v.X} }

var (
	rlMu      sync.Mutex
	rlHookFn  func(point string) // set while a reload call of a history with hooks=true is in progress
	rlHookGID uint64
)

func reloadHook(point string) {
	rlMu.Lock()
	f, id := rlHookFn, rlHookGID
	rlMu.Unlock()
	if f != nil && goid() == id {
		f(point)
	}
}

func (g *gw) verdict(id, url string) int {
	r := g.request(id, "GET", "rl.test/"+url, nil)
	if !r.early {
		return 0
	}
	return r.status
}

func (g *gw) admin(method, path string, body []byte) int {
	w := httptest.NewRecorder()
	g.mux.ServeHTTP(w, httptest.NewRequest(method, path, bytes.NewReader(body)))
	return w.Code
}

func flowsPayload(files map[string]string) []byte {
	fl := map[string]string{}
	for rel, c := range files {
		fl[filepath.Base(rel)] = base64.StdEncoding.EncodeToString([]byte(c))
	}
	b, _ := json.Marshal(map[string]any{"flows": fl})
	return b
}

func runReload(g *gw, sc *RScript, outdir string) {
	tr := vh.NewTrace()
	tr.Add(vh.Ev{"ev": "config", "urls": []string{"a", "x"}})
	var uid atomic.Int64
	urls := []string{"a", "x"}
	for hi, h := range sc.Histories {
		if h.G <= 0 {
			h.G = 4
		}
		if h.Cap <= 0 {
			h.Cap = 200
		}
		onDisk := h.V0 // files of the last version that was loaded successfully
		g.writeFiles(versionFiles(h.V0))
		if code := g.admin(http.MethodPost, "/load_flows", nil); code != 200 {
			vh.Die("history %d: initial load failed: %d", hi, code)
		}
		tr.Add(vh.Ev{"ev": "reset", "conf": confOf(h.V0)})

		var epoch atomic.Int64 // odd while a reload call is in progress
		var stop atomic.Bool
		var wg sync.WaitGroup
		for th := 0; th < h.G; th++ {
			wg.Add(1)
			go func(th int) {
				defer wg.Done()
				url := urls[th%len(urls)]
				var (
					open       bool
					runOut     int
					runEpoch   int64
					n          int
					b0, eLast  int64
					txnCounter int
				)
				flush := func() {
					if open {
						id := uid.Add(1)
						tr.AddAt(b0, vh.Ev{"ev": "begin", "id": id, "op": "req", "url": url, "out": runOut, "n": n})
						tr.AddAt(eLast, vh.Ev{"ev": "end", "id": id})
						open = false
					}
				}
				for !stop.Load() {
					txnCounter++
					e1 := epoch.Load()
					b := tr.Stamp()
					out := g.verdict(fmt.Sprintf("rl%d-%d-%d", hi, th, txnCounter), url)
					e := tr.Stamp()
					e2 := epoch.Load()
					if open && (out != runOut || e1 != runEpoch || e2 != e1 || (runEpoch%2 == 1 && n >= h.Cap)) {
						flush()
					}
					if !open {
						open, runOut, runEpoch, n, b0 = true, out, e1, 0, b
					}
					n++
					eLast = e
					if e2 != e1 { // began before and ended after a boundary of a reload call: on its own
						flush()
					}
				}
				flush()
			}(th)
		}
		time.Sleep(2 * time.Millisecond)
		for ri, rl := range h.Reloads {
			id := uid.Add(1)
			files := versionFiles(rl.To)
			if h.Hooks {
				rlMu.Lock()
				rlHookGID = goid()
				rlHookFn = func(point string) {
					for _, u := range urls {
						pid := uid.Add(1)
						b := tr.Stamp()
						out := g.verdict(fmt.Sprintf("rlh%d-%d-%s-%s", hi, ri, point, u), u)
						tr.AddAt(b, vh.Ev{"ev": "begin", "id": pid, "op": "req", "url": u, "out": out, "n": 1, "at": point})
						tr.Add(vh.Ev{"ev": "end", "id": pid})
					}
				}
				rlMu.Unlock()
			}
			route := rl.Route
			if route == "configuration" && onDisk.X != 0 && rl.To.X == 0 {
				route = "apply_flows" // /configuration only adds and changes files: it cannot express a version without the flow on x
			}
			epoch.Add(1)
			b := tr.Stamp()
			var code int
			switch route {
			case "apply_flows":
				code = g.admin(http.MethodPut, "/apply_flows", flowsPayload(files))
			case "configuration":
				code = g.admin(http.MethodPut, "/configuration", flowsPayload(files))
			default:
				g.writeFiles(files)
				code = g.admin(http.MethodPost, "/load_flows", nil)
			}
			ok := code >= 200 && code < 300
			tr.AddAt(b, vh.Ev{"ev": "begin", "id": id, "op": "reload", "to": confOf(rl.To), "ok": ok, "route": route, "code": code})
			tr.Add(vh.Ev{"ev": "end", "id": id})
			epoch.Add(1)
			rlMu.Lock()
			rlHookFn = nil
			rlMu.Unlock()
			if ok {
				onDisk = rl.To
			} else if route != "apply_flows" && route != "configuration" {
				g.writeFiles(versionFiles(onDisk)) // the files of the refused version do not stay behind for the next call
			}
			time.Sleep(1 * time.Millisecond) // a quiet period between two reload calls
		}
		stop.Store(true)
		wg.Wait()
	}
	tr.Write(filepath.Join(outdir, "trace-000.ndjson"))
}
