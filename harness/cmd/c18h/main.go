// c18h: the same scripts and the same NDJSON events as cmd/c18, but every request / response goes through the real
// top-level SPOE message handler routing.Handler(dm)(*request.Request) of a HandlingDataManager in flows mode:
// req.Messages holds a lunar-on-request / lunar-on-response message built from KV args as HAProxy sends them
// (id, sequence_id, method, scheme, url, path, query, headers, body / status), the verdict is decoded from req.Actions
// (return_early_response + status_code => "refuse" / the status; none => "admit").  Proxy errors (how: err) go through
// the real admin route PUT /on_haproxy_error.  Pure executor: no verdicts.
//
//	c18h run <scripts.json> <outdir>
//	c18h reload <script.json> <outdir>      transactions while the flows are being reloaded (see reload.go)
//
// scripts.json / events / ops: see cmd/c18.  Supported: reset, conc (reqfw, reqcq, endcq, reqsel, metrics), fwstorm, cqstorm,
// hammer.  Not supported: sched (the gates of cmd/c18 belong to the engine-level harness).
// reset = the script's files are written to the configuration tree and loaded through the real POST /load_flows
// (a fresh stream engine with fresh quota state becomes the active one).  The clock is the real one (the fixed window of
// the scripts is an hour).  The hook point spoe.reply (before the handler hands its actions to the SPOE request) yields the
// processor, so that concurrently handled messages really overlap there.
// The process re-executes itself once with the environment the engine reads at package-initialisation time.
package main

import (
	"bytes"
	"encoding/json"
	"fmt"
	"io"
	"net"
	"net/http"
	"net/http/httptest"
	"os"
	"path/filepath"
	"runtime"
	"sort"
	"strconv"
	"strings"
	"sync"
	"sync/atomic"
	"syscall"
	"time"

	"lunar/engine/routing"
	"lunar/toolkit-core/verifhook"

	"github.com/negasus/haproxy-spoe-go/action"
	"github.com/negasus/haproxy-spoe-go/message"
	"github.com/negasus/haproxy-spoe-go/payload/kv"
	"github.com/negasus/haproxy-spoe-go/request"

	"verifharness/internal/vh"
)

type Op struct {
	Op  string `json:"op"`
	Txn string `json:"txn,omitempty"`
	How string `json:"how,omitempty"`
	G   string `json:"g,omitempty"`
	URL string `json:"url,omitempty"`
}

type Event struct {
	Ev      string `json:"ev"`
	Threads [][]Op `json:"threads,omitempty"`
	W       int64  `json:"w,omitempty"`
	G       string `json:"g,omitempty"`
	N       int    `json:"n,omitempty"`
}

type Script struct {
	Config    map[string]any    `json:"config"`
	Files     map[string]string `json:"files"`
	Histories [][]Event         `json:"histories"`
}

// which processors ran for the transaction handled by the calling goroutine (the handler runs the flow on the caller's goroutine)
var (
	procMu  sync.Mutex
	procsOf = map[uint64][]string{}
)

func goid() uint64 {
	var buf [64]byte
	n := runtime.Stack(buf[:], false)
	var id uint64
	for _, c := range buf[len("goroutine "):n] {
		if c < '0' || c > '9' {
			break
		}
		id = id*10 + uint64(c-'0')
	}
	return id
}

func sink(point string, kv ...any) {
	switch point {
	case "proc.exec":
		var key string
		for i := 0; i+1 < len(kv); i += 2 {
			if kv[i] == "key" {
				key = fmt.Sprint(kv[i+1])
			}
		}
		g := goid()
		procMu.Lock()
		if _, ok := procsOf[g]; ok {
			procsOf[g] = append(procsOf[g], key)
		}
		procMu.Unlock()
	case "hdm.initialized", "hdm.published":
		reloadHook(point)
	case "spoe.reply":
		for i := 0; i < 3; i++ {
			runtime.Gosched()
		}
	}
}

type result struct {
	early  bool
	status int
}

type gw struct {
	root    string
	dm      *routing.HandlingDataManager
	mux     *http.ServeMux
	handler routing.MessageHandler
}

// one SPOE message through the real handler
func (g *gw) spoe(name string, args [][2]any) action.Actions {
	k := kv.NewKV()
	for _, a := range args {
		k.Add(a[0].(string), a[1])
	}
	req := &request.Request{Messages: &message.Messages{{Name: name, KV: k}}}
	g.handler(req)
	return req.Actions
}

func (g *gw) request(id, method, url string, headers map[string]string) result {
	host, path := url, "/"
	if i := strings.Index(url, "/"); i >= 0 {
		host, path = url[:i], url[i:]
	}
	var hb strings.Builder
	fmt.Fprintf(&hb, "host: %s\r\n", host)
	for k, v := range headers {
		fmt.Fprintf(&hb, "%s: %s\r\n", k, v)
	}
	acts := g.spoe("lunar-on-request", [][2]any{
		{"id", id}, {"sequence_id", id}, {"method", method}, {"scheme", "https"}, {"url", url}, {"path", path},
		{"query", ""}, {"headers", hb.String()}, {"body", []byte("")},
	})
	var r result
	for _, a := range acts {
		switch a.Name {
		case "return_early_response":
			if b, ok := a.Value.(bool); ok && b {
				r.early = true
			}
		case "status_code":
			switch v := a.Value.(type) {
			case int:
				r.status = v
			case int64:
				r.status = int(v)
			case int32:
				r.status = int(v)
			}
		}
	}
	return r
}

func (g *gw) response(id, method, url string, status int) {
	g.spoe("lunar-on-response", [][2]any{
		{"id", id}, {"sequence_id", id}, {"method", method}, {"url", url}, {"status", int64(status)},
		{"headers", "content-type: text/plain\r\n"}, {"body", []byte("")},
	})
}

func (g *gw) proxyError(id string) {
	b, _ := json.Marshal(map[string]any{"failed_transactions": map[string]struct{}{id: {}}})
	w := httptest.NewRecorder()
	g.mux.ServeHTTP(w, httptest.NewRequest(http.MethodPut, "/on_haproxy_error", bytes.NewReader(b)))
	if w.Code != 200 {
		vh.Die("on_haproxy_error: %d %s", w.Code, w.Body.String())
	}
}

func (g *gw) writeFiles(files map[string]string) {
	for _, d := range []string{"flows", "quotas", "path_params"} {
		os.RemoveAll(filepath.Join(g.root, d))
		if err := os.MkdirAll(filepath.Join(g.root, d), 0o755); err != nil {
			vh.Die("mkdir: %v", err)
		}
	}
	for rel, content := range files {
		p := filepath.Join(g.root, rel)
		if err := os.MkdirAll(filepath.Dir(p), 0o755); err != nil {
			vh.Die("mkdir: %v", err)
		}
		if err := os.WriteFile(p, []byte(content), 0o644); err != nil {
			vh.Die("write: %v", err)
		}
	}
}

// a fresh engine (fresh quota state) from the files on disk, through the real loader
func (g *gw) reload() {
	w := httptest.NewRecorder()
	g.mux.ServeHTTP(w, httptest.NewRequest(http.MethodPost, "/load_flows", nil))
	if w.Code != 200 {
		vh.Die("load_flows: %d %s", w.Code, w.Body.String())
	}
}

func outcome(r result) string {
	if r.early {
		return "refuse"
	}
	return "admit"
}

func freePort() int {
	l, err := net.Listen("tcp", ":0")
	if err != nil {
		vh.Die("no free port: %v", err)
	}
	defer l.Close()
	return l.Addr().(*net.TCPAddr).Port
}

func main() {
	if len(os.Args) != 4 || (os.Args[1] != "run" && os.Args[1] != "reload") {
		vh.Die("usage: c18h run|reload <scripts.json> <outdir>")
	}
	outdir, _ := filepath.Abs(os.Args[3])
	root := filepath.Join(outdir, "root")
	if os.Getenv("VERIF_C18H_CHILD") == "" {
		port := strconv.Itoa(freePort())
		repo := os.Getenv("VERIF_REPO")
		if repo == "" {
			repo = "/repo"
		}
		for k, v := range map[string]string{
			"VERIF_C18H_CHILD":                   "1",
			"LUNAR_STREAMS_ENABLED":              "true",
			"LUNAR_PROXY_FLOW_DIRECTORY":         filepath.Join(root, "flows"),
			"LUNAR_PROXY_QUOTAS_DIRECTORY":       filepath.Join(root, "quotas"),
			"LUNAR_FLOWS_PATH_PARAM_DIR":         filepath.Join(root, "path_params"),
			"LUNAR_PROXY_CONFIG":                 filepath.Join(root, "gateway_config.yaml"),
			"LUNAR_PROXY_METRICS_CONFIG":         filepath.Join(root, "metrics.yaml"),
			"LUNAR_PROXY_METRICS_CONFIG_DEFAULT": filepath.Join(repo, "proxy/metrics.yaml"),
			"HAPROXY_MANAGE_ENDPOINTS_PORT":      port,
			"LUNAR_HEALTHCHECK_PORT":             port,
			"TENANT_NAME":                        "verif",
			"DISCOVERY_STATE_LOCATION":           filepath.Join(outdir, "discovery.json"),
			"REMEDY_STATE_LOCATION":              filepath.Join(outdir, "remedy.json"),
			"LOG_LEVEL":                          "panic",
		} {
			os.Setenv(k, v)
		}
		os.Unsetenv("LUNAR_API_KEY")
		exe, err := os.Executable()
		if err != nil {
			vh.Die("executable: %v", err)
		}
		if err := syscall.Exec(exe, os.Args, os.Environ()); err != nil {
			vh.Die("exec: %v", err)
		}
	}
	vh.Quiet()
	verifhook.SetSink(sink)
	var scripts []Script
	var rscript RScript
	if os.Args[1] == "reload" {
		vh.ReadJSON(os.Args[2], &rscript)
		if len(rscript.Histories) == 0 {
			return
		}
		scripts = []Script{{Files: versionFiles(rscript.Histories[0].V0)}}
	} else {
		vh.ReadJSON(os.Args[2], &scripts)
	}
	if len(scripts) == 0 {
		return
	}
	if err := os.MkdirAll(root, 0o755); err != nil {
		vh.Die("mkdir: %v", err)
	}
	// loopback fake of the HAProxy admin / health API (always 200)
	ln, err := net.Listen("tcp", ":"+os.Getenv("HAPROXY_MANAGE_ENDPOINTS_PORT"))
	if err != nil {
		fmt.Fprintf(os.Stderr, "harness: port clash: %v\n", err)
		os.Exit(4)
	}
	go http.Serve(ln, http.HandlerFunc(func(w http.ResponseWriter, r *http.Request) { //nolint:errcheck
		io.Copy(io.Discard, r.Body)
		w.WriteHeader(200)
		if strings.HasPrefix(r.URL.Path, "/healthcheck") {
			w.Write([]byte("OK\n")) // the engine's health check fails on an empty body
		}
		// admin calls get an empty body: the engine never closes these responses, an unread body would pin one
		// connection (and file descriptor) per call
	}))

	g := &gw{root: root}
	g.writeFiles(scripts[0].Files)
	g.dm = routing.NewHandlingDataManager(5*time.Second, nil)
	if err := g.dm.Setup(nil); err != nil {
		vh.Die("Setup: %v", err)
	}
	g.mux = http.NewServeMux()
	g.dm.SetHandleRoutes(g.mux)
	g.handler = routing.Handler(g.dm)
	if os.Args[1] == "reload" {
		runReload(g, &rscript, outdir)
		return
	}

	var uid atomic.Int64
	for si := range scripts {
		sc := &scripts[si]
		g.writeFiles(sc.Files)
		tr := vh.NewTrace()
		cfg := vh.Ev{"ev": "config"}
		for k, v := range sc.Config {
			cfg[k] = v
		}
		tr.Add(cfg)
		for hi, h := range sc.Histories {
			var admitted sync.Map
			for _, e := range h {
				switch e.Ev {
				case "reset":
					g.reload()
					tr.Add(vh.Ev{"ev": "reset"})
				case "fwstorm", "cqstorm":
					var wg sync.WaitGroup
					var arrived atomic.Int32
					var mu sync.Mutex
					adm := []string{}
					for i := 0; i < e.N; i++ {
						wg.Add(1)
						id := uid.Add(1)
						go func() {
							defer wg.Done()
							arrived.Add(1)
							for spins := 0; arrived.Load() < int32(e.N) && spins < 1_000_000; spins++ {
								runtime.Gosched()
							}
							txn := fmt.Sprintf("st%d", id)
							var r result
							if e.Ev == "fwstorm" {
								r = g.request(txn, "GET", "api.test/fw", map[string]string{"x-group": e.G})
							} else {
								r = g.request(txn, "GET", "api.test/cq", nil)
							}
							if !r.early {
								mu.Lock()
								adm = append(adm, txn)
								mu.Unlock()
							}
						}()
					}
					wg.Wait()
					if e.Ev == "fwstorm" {
						tr.Add(vh.Ev{"ev": "fwbatch", "g": e.G, "n": e.N, "p": len(adm)})
					} else {
						sort.Strings(adm)
						tr.Add(vh.Ev{"ev": "cqbatch", "n": e.N, "adm": adm})
						for _, txn := range adm {
							id := uid.Add(1)
							g.response(txn, "GET", "api.test/cq", 200)
							tr.Add(vh.Ev{"ev": "begin", "id": id, "op": "endcq", "txn": txn})
							tr.Add(vh.Ev{"ev": "end", "id": id})
						}
					}
				case "hammer":
					var wg sync.WaitGroup
					for th := 0; th < e.N; th++ {
						wg.Add(1)
						go func() {
							defer wg.Done()
							for it := int64(0); it < e.W; it++ {
								id := uid.Add(1)
								txn := fmt.Sprintf("hm%d", id)
								b := tr.Stamp()
								out := outcome(g.request(txn, "GET", "api.test/cq", nil))
								tr.AddAt(b, vh.Ev{"ev": "begin", "id": id, "op": "reqcq", "txn": txn, "out": out})
								tr.Add(vh.Ev{"ev": "end", "id": id})
								if out == "admit" {
									id2 := uid.Add(1)
									b2 := tr.Stamp()
									g.response(txn, "GET", "api.test/cq", 200)
									tr.AddAt(b2, vh.Ev{"ev": "begin", "id": id2, "op": "endcq", "txn": txn})
									tr.Add(vh.Ev{"ev": "end", "id": id2})
								}
							}
						}()
					}
					wg.Wait()
				case "conc":
					var wg sync.WaitGroup
					var arrived atomic.Int32
					n := int32(len(e.Threads))
					for _, th := range e.Threads {
						wg.Add(1)
						go func(ops []Op) {
							defer wg.Done()
							arrived.Add(1)
							for spins := 0; arrived.Load() < n && spins < 1_000_000; spins++ {
								runtime.Gosched()
							}
							for _, op := range ops {
								id := uid.Add(1)
								txn := fmt.Sprintf("s%d-h%d-%s", si, hi, op.Txn)
								switch op.Op {
								case "reqfw":
									b := tr.Stamp()
									r := g.request(fmt.Sprintf("f%d", id), "GET", "api.test/fw", map[string]string{"x-group": op.G})
									tr.AddAt(b, vh.Ev{"ev": "begin", "id": id, "op": "reqfw", "g": op.G, "out": outcome(r)})
									tr.Add(vh.Ev{"ev": "end", "id": id})
								case "reqsel":
									gid := goid()
									procMu.Lock()
									procsOf[gid] = []string{}
									procMu.Unlock()
									b := tr.Stamp()
									r := g.request(fmt.Sprintf("s%d", id), "GET", op.URL, nil)
									procMu.Lock()
									keys := procsOf[gid]
									delete(procsOf, gid)
									procMu.Unlock()
									out := fmt.Sprintf("%d|%s", r.status, strings.Join(keys, ","))
									tr.AddAt(b, vh.Ev{"ev": "begin", "id": id, "op": "reqsel", "url": op.URL, "out": out})
									tr.Add(vh.Ev{"ev": "end", "id": id})
								case "reqcq":
									b := tr.Stamp()
									out := outcome(g.request(txn, "GET", "api.test/cq", nil))
									if out == "admit" {
										admitted.Store(txn, true)
									}
									tr.AddAt(b, vh.Ev{"ev": "begin", "id": id, "op": "reqcq", "txn": txn, "out": out})
									tr.Add(vh.Ev{"ev": "end", "id": id})
								case "endcq":
									if _, ok := admitted.LoadAndDelete(txn); !ok {
										continue
									}
									b := tr.Stamp()
									if op.How == "err" {
										g.proxyError(txn)
									} else {
										g.response(txn, "GET", "api.test/cq", 200)
									}
									tr.AddAt(b, vh.Ev{"ev": "begin", "id": id, "op": "endcq", "txn": txn})
									tr.Add(vh.Ev{"ev": "end", "id": id})
								case "scrape":
									// read of the used-quota gauges of both quotas, as the metrics observer does on a scrape
									b := tr.Stamp()
									out := "ok"
									for _, qid := range []string{"fw", "cq"} {
										q, err := g.dm.VerifActiveStream().VerifQuota(qid)
										if err != nil {
											out = "error:" + err.Error()
											break
										}
										c, ok := q.(interface{ GetQuotaGroupsCounters() map[string]int64 })
										if !ok {
											out = fmt.Sprintf("error:quota %s (%T) has no GetQuotaGroupsCounters", qid, q)
											break
										}
										c.GetQuotaGroupsCounters()
									}
									tr.AddAt(b, vh.Ev{"ev": "begin", "id": id, "op": "scrape", "out": out})
									tr.Add(vh.Ev{"ev": "end", "id": id})
								case "metrics":
									b := tr.Stamp()
									inv := g.dm.VerifActiveStream().GetFlowInvocations()
									tr.AddAt(b, vh.Ev{"ev": "begin", "id": id, "op": "metrics",
										"nfw": inv["flow_fw"], "ncq": inv["flow_cq"]})
									tr.Add(vh.Ev{"ev": "end", "id": id})
								default:
									vh.Die("unknown op %q", op.Op)
								}
							}
						}(th)
					}
					wg.Wait()
				default:
					vh.Die("event %q is not supported by c18h", e.Ev)
				}
			}
		}
		tr.Write(filepath.Join(outdir, fmt.Sprintf("trace-%03d.ndjson", si)))
	}
}
