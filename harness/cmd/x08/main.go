// x08: the engine's administrative interface as a state machine - executes operator histories against the REAL
// routing.HandlingDataManager (real NewHandlingDataManager + Setup = engine start-up, real SetHandleRoutes mux, real
// routing.Handler for the probe transactions) in flows mode and in policy mode, and records what the real code answered
// and what an operator can observe afterwards.  Pure executor: no verdicts (specs/x08_admin_interface judges).
//
//	x08 run <script.json> <outdir>          one child process per history (Setup can run once per process; the engine
//	                                        reads its ports at package initialisation)
//
// script.json: {"config":{..},"contents":{path:{tag:text}},"probes":[{"id","url"}],"histories":[{"id","mode","hub","managed","ops":[op..]}]}
// op:  {"op":"edit","tree":{path:tag}}                  the operator rewrites the configuration tree (flows: flows/ quotas/
//
//	                                                      path_params/ gateway_config.yaml; policies: policies.yaml)
//	{"op":"statefile","which":"discover|remedy","tag":t|"absent"}   the aggregation plugin's state files
//	{"op":"hapfail","nth":k}                          the k-th admin call to HAProxy from now is refused (500)
//	{"op":"start"}                                    engine start-up on the tree as it is
//	{"op":"call","ep":e,"method":m,"payload":{path:tag},"raw":s,"body":tag,"txns":[..]}   one admin request
//	{"op":"begin","u":k,"ep":e,"payload":{..},"point":p,"nth":n}    an update sent by its own goroutine, parked at the n-th
//	                                                      occurrence of yield point p (fs.remove | fs.store | hdm.initialized | hdm.published)
//	{"op":"finish","u":k}                             let the parked update run to its answer
//
// outdir/trace.ndjson: line 1 {"ev":"config",..}; per history: reset, then one event per op carrying the answer (code, codes,
// ans) and the observation afterwards ("obs": disk tags, SHA-256 of the tree, what the probes were served by, admin calls
// made to HAProxy during the op).
package main

import (
	"bytes"
	"crypto/md5"
	"crypto/sha256"
	"encoding/base64"
	"encoding/hex"
	"encoding/json"
	"fmt"
	"io"
	"net"
	"net/http"
	"net/http/httptest"
	"os"
	osexec "os/exec"
	"path/filepath"
	"runtime"
	"sort"
	"strconv"
	"strings"
	"sync"
	"time"

	"lunar/engine/communication"
	"lunar/engine/routing"
	contextmanager "lunar/toolkit-core/context-manager"
	"lunar/toolkit-core/verifhook"

	"github.com/negasus/haproxy-spoe-go/action"
	"github.com/negasus/haproxy-spoe-go/message"
	"github.com/negasus/haproxy-spoe-go/payload/kv"
	"github.com/negasus/haproxy-spoe-go/request"
	"gopkg.in/yaml.v3"

	"verifharness/internal/vh"
)

type Op struct {
	Op      string            `json:"op"`
	Tree    map[string]string `json:"tree"`
	Which   string            `json:"which"`
	Tag     string            `json:"tag"`
	Nth     int               `json:"nth"`
	Ep      string            `json:"ep"`
	Method  string            `json:"method"`
	Payload map[string]string `json:"payload"`
	Raw     string            `json:"raw"`
	Body    string            `json:"body"`
	Txns    []string          `json:"txns"`
	U       string            `json:"u"`
	Point   string            `json:"point"`
}

type History struct {
	ID      int    `json:"id"`
	Mode    string `json:"mode"` // flows | policies
	Hub     bool   `json:"hub"`
	Managed string `json:"managed"`
	Ops     []Op   `json:"ops"`
}

type Probe struct {
	ID  string `json:"id"`
	URL string `json:"url"`
}

type Script struct {
	Config    map[string]any               `json:"config"`
	Contents  map[string]map[string]string `json:"contents"`
	Probes    []Probe                      `json:"probes"`
	Histories []History                    `json:"histories"`
}

// ---------------------------------------------------------------- fake HAProxy admin / health API

type fakeHAProxy struct {
	mu     sync.Mutex
	put    int
	del    int
	failIn int
	fired  bool
}

func (f *fakeHAProxy) ServeHTTP(w http.ResponseWriter, r *http.Request) {
	io.Copy(io.Discard, r.Body) //nolint:errcheck
	if strings.HasPrefix(r.URL.Path, "/healthcheck") {
		w.WriteHeader(200)
		w.Write([]byte("OK\n")) //nolint:errcheck
		return
	}
	f.mu.Lock()
	code := 200
	if r.Method == http.MethodDelete {
		f.del++
	} else {
		f.put++
		if f.failIn > 0 {
			f.failIn--
			if f.failIn == 0 {
				code = 500
				f.fired = true
			}
		}
	}
	f.mu.Unlock()
	w.WriteHeader(code)
}

// ---------------------------------------------------------------- executor

type gated struct {
	key     string
	point   string
	nth     int
	seen    int
	parked  bool
	park    chan struct{}
	release chan struct{}
	done    chan struct{}
	w       *rw
}

type exec struct {
	sc       *Script
	h        *History
	root     string // the operator's tree
	state    string // directory of the state files
	tr       *vh.Trace
	hap      *fakeHAProxy
	dm       *routing.HandlingDataManager
	mux      *http.ServeMux
	handler  routing.MessageHandler
	txn      int
	gmu      sync.Mutex
	gates    map[uint64]*gated
	byKey    map[string]*gated
	dmu      sync.Mutex
	notified int
	doneCh   chan struct{}
}

func goid() uint64 {
	var buf [64]byte
	n := runtime.Stack(buf[:], false)
	var id uint64
	for _, c := range buf[len("goroutine "):n] {
		if c < '0' || c > '9' {
			break
		}
		id = id*10 + uint64(c-'0')
	}
	return id
}

func (x *exec) abs(rel string) string { return filepath.Join(x.root, rel) }

func (x *exec) content(rel, tag string) []byte {
	m, ok := x.sc.Contents[rel]
	if !ok {
		vh.Die("no contents for path %s", rel)
	}
	s, ok := m[tag]
	if !ok {
		vh.Die("no contents for %s / %s", rel, tag)
	}
	return []byte(s)
}

// the tag of what is stored under rel ("?hash" when it is none of the script's contents)
func (x *exec) tagOf(rel string, b []byte) string {
	for t, s := range x.sc.Contents[rel] {
		if s == string(b) {
			return t
		}
	}
	s := sha256.Sum256(b)
	return "?" + hex.EncodeToString(s[:4])
}

// a policies document projected onto (names of its remedies, number of diagnosis plugins)
type polID struct {
	Names []string `json:"names"`
	Nd    int      `json:"nd"`
}

func policyID(b []byte) polID {
	var doc struct {
		Global struct {
			Remedies  []struct{ Name string } `yaml:"remedies"`
			Diagnosis []struct{ Name string } `yaml:"diagnosis"`
		} `yaml:"global"`
		Endpoints []struct {
			Remedies  []struct{ Name string } `yaml:"remedies"`
			Diagnosis []struct{ Name string } `yaml:"diagnosis"`
		} `yaml:"endpoints"`
	}
	if err := yaml.Unmarshal(b, &doc); err != nil {
		return polID{Names: []string{"?"}, Nd: -2}
	}
	names := []string{}
	nd := len(doc.Global.Diagnosis)
	for _, r := range doc.Global.Remedies {
		names = append(names, r.Name)
	}
	for _, e := range doc.Endpoints {
		nd += len(e.Diagnosis)
		for _, r := range e.Remedies {
			names = append(names, r.Name)
		}
	}
	sort.Strings(names)
	return polID{Names: names, Nd: nd}
}

func (x *exec) snapshot() (any, string) {
	type ent struct {
		rel string
		b   []byte
	}
	var ents []ent
	_ = filepath.Walk(x.root, func(p string, info os.FileInfo, err error) error {
		if err != nil || info.IsDir() {
			return nil
		}
		b, _ := os.ReadFile(p)
		rel, _ := filepath.Rel(x.root, p)
		ents = append(ents, ent{rel, b})
		return nil
	})
	sort.Slice(ents, func(i, j int) bool { return ents[i].rel < ents[j].rel })
	h := sha256.New()
	disk := map[string]string{}
	absent := polID{Names: []string{}, Nd: -1}
	pol := map[string]any{"pol": "none", "ll": absent, "df": absent}
	for _, e := range ents {
		fmt.Fprintf(h, "%s\x00%d\x00", e.rel, len(e.b))
		h.Write(e.b)
		if x.h.Mode == "policies" {
			// the operator's file by its tag, the files the engine writes itself by their meaning
			switch e.rel {
			case "policies.yaml":
				pol["pol"] = x.tagOf(e.rel, e.b)
			case "loaded-policies.yaml":
				pol["ll"] = policyID(e.b)
			case "loaded-policies-diagnosis-free.yaml":
				pol["df"] = policyID(e.b)
			default:
				pol["other:"+e.rel] = "present"
			}
			continue
		}
		disk[e.rel] = x.tagOf(e.rel, e.b)
	}
	if x.h.Mode == "policies" {
		return pol, hex.EncodeToString(h.Sum(nil))
	}
	return disk, hex.EncodeToString(h.Sum(nil))
}

func (x *exec) writeTree(tree map[string]string) {
	if x.h.Mode == "flows" {
		for _, d := range []string{"flows", "quotas", "path_params"} {
			os.RemoveAll(x.abs(d))
			if err := os.MkdirAll(x.abs(d), 0o755); err != nil {
				vh.Die("mkdir: %v", err)
			}
		}
		os.Remove(x.abs("gateway_config.yaml"))
	} else {
		os.Remove(x.abs("policies.yaml"))
	}
	for rel, tag := range tree {
		if tag == "none" {
			continue
		}
		if err := os.MkdirAll(filepath.Dir(x.abs(rel)), 0o755); err != nil {
			vh.Die("mkdir: %v", err)
		}
		if err := os.WriteFile(x.abs(rel), x.content(rel, tag), 0o644); err != nil {
			vh.Die("write %s: %v", rel, err)
		}
	}
}

// ---------------------------------------------------------------- probes through the SPOE message handler

func (x *exec) spoe(name string, args [][2]any) action.Actions {
	k := kv.NewKV()
	for _, a := range args {
		k.Add(a[0].(string), a[1])
	}
	req := &request.Request{Messages: &message.Messages{{Name: name, KV: k}}}
	x.handler(req)
	return req.Actions
}

func headerOf(dump, name string) (string, bool) {
	for _, line := range strings.Split(dump, "\n") {
		line = strings.TrimRight(line, "\r")
		i := strings.Index(line, ":")
		if i < 0 {
			continue
		}
		if strings.EqualFold(strings.TrimSpace(line[:i]), name) {
			return strings.TrimSpace(line[i+1:]), true
		}
	}
	return "", false
}

func str(v any) string {
	switch s := v.(type) {
	case string:
		return s
	case []byte:
		return string(s)
	}
	return fmt.Sprint(v)
}

// one probe transaction per probe URL: which configuration acted on it.
// flows mode: the version tag the flow of that URL wrote into the request ("none": no flow acted, "foreign": the header of
// another flow); policy mode: the early response a remedy produced and whether a diagnosis plugin saw the transaction
func (x *exec) probeAll() map[string]any {
	served := map[string]any{}
	for _, p := range x.sc.Probes {
		var v string
		if x.handler == nil {
			v = "down"
		} else {
			v = x.probeOne(p)
		}
		if x.h.Mode == "flows" {
			switch {
			case strings.HasPrefix(v, p.ID+":"):
				v = strings.TrimPrefix(v, p.ID+":")
			case v != "none" && v != "down" && v != "panic" && v != "unanswered":
				v = "foreign"
			}
			served[p.ID] = v
			continue
		}
		r := map[string]any{"early": false, "st": 0, "diag": strings.HasSuffix(v, "+diag")}
		v = strings.TrimSuffix(v, "+diag")
		switch {
		case strings.HasPrefix(v, "st:"):
			n, _ := strconv.Atoi(strings.TrimPrefix(v, "st:"))
			r["early"], r["st"] = true, n
		case v == "down":
			r["st"] = -1
		case v != "none":
			r["st"] = -2
		}
		served[p.ID] = r
	}
	return served
}

func (x *exec) probeOne(p Probe) (res string) {
	defer func() {
		if r := recover(); r != nil {
			res = "panic"
		}
	}()
	x.txn++
	id := fmt.Sprintf("probe-%d-%d-%s", x.h.ID, x.txn, p.ID)
	host := p.URL
	path := "/"
	if i := strings.Index(p.URL, "/"); i >= 0 {
		host, path = p.URL[:i], p.URL[i:]
	}
	hdr := "host: " + host + "\r\ncontent-type: application/json\r\nEarly-Response: true\r\n"
	x.dmu.Lock()
	x.notified = 0
	x.dmu.Unlock()
	acts := x.spoe("lunar-on-request", [][2]any{
		{"id", id}, {"sequence_id", id}, {"method", "GET"}, {"scheme", "https"}, {"url", p.URL},
		{"path", path}, {"query", ""}, {"headers", hdr}, {"body", []byte("{}")},
	})
	if acts == nil {
		return "unanswered"
	}
	res = "none"
	early := false
	for _, a := range acts {
		switch a.Name {
		case "request_headers":
			if v, ok := headerOf(str(a.Value), "x-ver"); ok {
				res = v
			}
		case "return_early_response":
			if b, ok := a.Value.(bool); ok && b {
				early = true
			}
		}
	}
	if early {
		for _, a := range acts {
			if a.Name == "status_code" {
				res = "st:" + fmt.Sprint(a.Value)
			}
		}
	}
	if x.h.Mode == "policies" {
		if !early {
			x.spoe("lunar-on-response", [][2]any{
				{"id", id}, {"sequence_id", id}, {"method", "GET"}, {"url", p.URL}, {"status", int64(200)},
				{"headers", "content-type: text/plain\r\n"}, {"body", []byte("")},
			})
		}
		// diagnosis plugins applied to the transaction (tasks handed to the diagnosis worker)
		x.dmu.Lock()
		n := x.notified
		x.dmu.Unlock()
		for i := 0; i < n; i++ {
			select {
			case <-x.doneCh:
			case <-time.After(20 * time.Second):
				vh.Die("diagnosis worker did not finish a task of %s", id)
			}
		}
		if n > 0 {
			res += "+diag"
		}
	}
	return res
}

// ---------------------------------------------------------------- hooks

func (x *exec) sink(point string, kvs ...any) {
	switch point {
	case "diag.notify":
		x.dmu.Lock()
		x.notified++
		x.dmu.Unlock()
		return
	case "diag.done":
		select {
		case x.doneCh <- struct{}{}:
		default:
		}
		return
	}
	if point == "fs.remove" || point == "fs.store" || point == "hdm.initialized" || point == "hdm.published" {
		if strings.HasPrefix(point, "fs.") && len(kvs) >= 2 {
			// only the files of the observed tree count (the handlers also back up and restore the metrics file)
			if p, ok := kvs[1].(string); ok && !strings.HasPrefix(p, x.root+string(os.PathSeparator)) {
				return
			}
		}
		x.gmu.Lock()
		g := x.gates[goid()]
		x.gmu.Unlock()
		if g == nil || g.point != point || g.parked {
			return
		}
		g.seen++
		if g.seen != g.nth {
			return
		}
		g.parked = true
		g.park <- struct{}{}
		<-g.release
	}
}

// ---------------------------------------------------------------- response writer

type rw struct {
	hdr   http.Header
	codes []int
	body  bytes.Buffer
}

func (w *rw) Header() http.Header { return w.hdr }
func (w *rw) WriteHeader(c int)   { w.codes = append(w.codes, c) }
func (w *rw) Write(b []byte) (int, error) {
	if len(w.codes) == 0 {
		w.codes = append(w.codes, 200)
	}
	return w.body.Write(b)
}

func (w *rw) code() int {
	if len(w.codes) == 0 {
		return 200
	}
	return w.codes[0]
}

func (x *exec) bodyOf(o Op) []byte {
	switch {
	case o.Raw != "":
		return []byte(o.Raw)
	case o.Ep == "apply_flows" || o.Ep == "configuration":
		out := map[string]any{}
		sub := func(key string) map[string]string {
			m, ok := out[key].(map[string]string)
			if !ok {
				m = map[string]string{}
				out[key] = m
			}
			return m
		}
		for rel, tag := range o.Payload {
			enc := base64.StdEncoding.EncodeToString(x.content(rel, tag))
			switch {
			case strings.HasPrefix(rel, "flows/"):
				sub("flows")[strings.TrimPrefix(rel, "flows/")] = enc
			case strings.HasPrefix(rel, "quotas/"):
				sub("quotas")[strings.TrimPrefix(rel, "quotas/")] = enc
			case strings.HasPrefix(rel, "path_params/"):
				sub("path_params")[strings.TrimPrefix(rel, "path_params/")] = enc
			case rel == "gateway_config.yaml":
				out["gateway_config"] = enc
			}
		}
		b, _ := json.Marshal(out)
		return b
	case o.Ep == "apply_policies" && o.Body != "":
		return x.content("policies.yaml", o.Body)
	case o.Ep == "on_haproxy_error":
		m := map[string]any{}
		ft := map[string]struct{}{}
		for _, t := range o.Txns {
			ft[t] = struct{}{}
		}
		m["failed_transactions"] = ft
		b, _ := json.Marshal(m)
		return b
	}
	return nil
}

func (x *exec) serve(o Op) *rw {
	w := &rw{hdr: http.Header{}}
	if x.mux == nil {
		w.codes = []int{0}
		return w
	}
	m := o.Method
	if m == "" {
		m = "GET"
	}
	func() {
		// net/http answers a panicking handler by dropping the connection: recorded as status 599
		defer func() {
			if r := recover(); r != nil {
				w.codes = append([]int{599}, w.codes...)
				w.body.WriteString(fmt.Sprint(" PANIC: ", r))
			}
		}()
		x.mux.ServeHTTP(w, httptest.NewRequest(m, "/"+o.Ep, bytes.NewReader(x.bodyOf(o))))
	}()
	return w
}

// the answer of a GET endpoint projected onto what the specification talks about
func (x *exec) answer(o Op, w *rw) vh.Ev {
	if o.Method != "GET" && o.Method != "" || w.code() != 200 {
		return nil
	}
	switch o.Ep {
	case "handshake":
		var v struct {
			Managed bool `json:"managed"`
		}
		ok := json.Unmarshal(w.body.Bytes(), &v) == nil
		return vh.Ev{"k": "handshake", "parsed": ok, "managed": v.Managed}
	case "discover", "remedy_stats":
		var v struct {
			Data *string `json:"data"`
		}
		if json.Unmarshal(w.body.Bytes(), &v) != nil || v.Data == nil {
			return vh.Ev{"k": "file", "parsed": false, "data": ""}
		}
		which := "discover"
		if o.Ep == "remedy_stats" {
			which = "remedy"
		}
		return vh.Ev{"k": "file", "parsed": true, "data": x.tagOf(which, []byte(*v.Data))}
	case "doctor":
		var v struct {
			Streams bool `json:"is_streams_enabled"`
			Active  *struct {
				YAML string `json:"yaml"`
				MD5  string `json:"md5"`
			} `json:"active_policies"`
			Loaded *struct {
				Data []struct {
					Type     string `json:"type"`
					FileName string `json:"file_name"`
					Content  string `json:"content"`
					MD5      string `json:"md5"`
				} `json:"data"`
			} `json:"loaded_streams_config"`
		}
		if json.Unmarshal(w.body.Bytes(), &v) != nil {
			return vh.Ev{"k": "doctor", "parsed": false}
		}
		a := vh.Ev{"k": "doctor", "parsed": true, "streams": v.Streams, "haspol": v.Active != nil, "hasloaded": v.Loaded != nil,
			"pol": polID{Names: []string{}, Nd: -1}, "md5ok": true, "files": map[string]string{}, "ext": 0}
		if v.Active != nil {
			a["pol"] = policyID([]byte(v.Active.YAML))
			s := md5.Sum([]byte(v.Active.YAML))
			a["md5ok"] = hex.EncodeToString(s[:]) == v.Active.MD5
		}
		if v.Loaded != nil {
			files := map[string]string{}
			ext := 0
			md5ok := true
			for _, d := range v.Loaded.Data {
				s := md5.Sum([]byte(d.Content))
				md5ok = md5ok && hex.EncodeToString(s[:]) == d.MD5
				rel, err := filepath.Rel(x.root, d.FileName)
				if err != nil || strings.HasPrefix(rel, "..") {
					ext++
					continue
				}
				files[rel] = x.tagOf(rel, []byte(d.Content))
			}
			a["files"], a["ext"], a["md5ok"] = files, ext, md5ok
		}
		return a
	}
	return nil
}

func (x *exec) obs(put0, del0 int) vh.Ev {
	disk, sha := x.snapshot()
	x.hap.mu.Lock()
	put, del, fired := x.hap.put-put0, x.hap.del-del0, x.hap.fired
	x.hap.fired = false
	x.hap.mu.Unlock()
	return vh.Ev{"disk": disk, "sha": sha, "served": x.probeAll(), "put": put, "del": del, "hapfault": fired}
}

func (x *exec) counters() (int, int) {
	x.hap.mu.Lock()
	defer x.hap.mu.Unlock()
	return x.hap.put, x.hap.del
}

func argOf(o Op) vh.Ev {
	a := vh.Ev{"payload": map[string]string{}, "body": o.Body, "decodable": o.Raw == "", "txns": len(o.Txns)}
	if o.Payload != nil {
		a["payload"] = o.Payload
	}
	return a
}

func trunc(s string) string {
	if len(s) > 240 {
		return s[:240]
	}
	return s
}

func (x *exec) start() {
	put0, del0 := x.counters()
	var hub *communication.HubCommunication
	if x.h.Hub {
		// a hub that is configured but not reachable: the engine keeps the loaded configuration for the hub (and the doctor)
		hub = communication.NewHubCommunication("verif-key", "verif-gateway", contextmanager.Get().GetClock())
	}
	ok, errText := true, ""
	func() {
		defer func() {
			if r := recover(); r != nil {
				ok, errText = false, "panic: "+fmt.Sprint(r)
			}
		}()
		dm := routing.NewHandlingDataManager(5*time.Second, hub)
		if err := dm.Setup(nil); err != nil {
			ok, errText = false, err.Error()
			return
		}
		x.dm = dm
		x.mux = http.NewServeMux()
		dm.SetHandleRoutes(x.mux)
		x.handler = routing.Handler(dm)
	}()
	x.tr.Add(vh.Ev{"ev": "start", "ok": ok, "err": trunc(errText), "obs": x.obs(put0, del0)})
}

func (x *exec) run() {
	h := x.h
	x.tr.Add(vh.Ev{"ev": "reset", "hist": h.ID, "mode": h.Mode, "hub": h.Hub, "managed": h.Managed == "true"})
	for _, o := range h.Ops {
		switch o.Op {
		case "edit":
			x.writeTree(o.Tree)
			put0, del0 := x.counters()
			x.tr.Add(vh.Ev{"ev": "edit", "tree": o.Tree, "obs": x.obs(put0, del0)})
		case "statefile":
			p := filepath.Join(x.state, o.Which+".json")
			if o.Tag == "absent" {
				os.Remove(p)
			} else if err := os.WriteFile(p, x.content(o.Which, o.Tag), 0o644); err != nil {
				vh.Die("state file: %v", err)
			}
			x.tr.Add(vh.Ev{"ev": "statefile", "which": o.Which, "tag": o.Tag})
		case "hapfail":
			x.hap.mu.Lock()
			x.hap.failIn, x.hap.fired = o.Nth, false
			x.hap.mu.Unlock()
			x.tr.Add(vh.Ev{"ev": "hapfail", "nth": o.Nth})
		case "start":
			if x.dm != nil {
				vh.Die("history %d: second start", h.ID)
			}
			x.start()
		case "call":
			put0, del0 := x.counters()
			w := x.serve(o)
			ev := vh.Ev{"ev": "call", "ep": o.Ep, "method": o.Method, "arg": argOf(o), "code": w.code(), "codes": w.codes,
				"body": trunc(w.body.String())}
			if a := x.answer(o, w); a != nil {
				ev["ans"] = a
			}
			ev["obs"] = x.obs(put0, del0)
			x.tr.Add(ev)
		case "begin":
			put0, del0 := x.counters()
			if x.mux == nil { // the engine did not come up: there is no interface
				x.tr.Add(vh.Ev{"ev": "call", "ep": o.Ep, "method": "PUT", "arg": argOf(o), "code": 0, "codes": []int{0}, "obs": x.obs(put0, del0)})
				continue
			}
			g := &gated{key: o.U, point: o.Point, nth: o.Nth, park: make(chan struct{}), release: make(chan struct{}),
				done: make(chan struct{}), w: &rw{hdr: http.Header{}}}
			x.byKey[o.U] = g
			oo := o
			go func() {
				defer close(g.done)
				id := goid()
				x.gmu.Lock()
				x.gates[id] = g
				x.gmu.Unlock()
				defer func() {
					x.gmu.Lock()
					delete(x.gates, id)
					x.gmu.Unlock()
				}()
				m := oo.Method
				if m == "" {
					m = "PUT"
				}
				x.mux.ServeHTTP(g.w, httptest.NewRequest(m, "/"+oo.Ep, bytes.NewReader(x.bodyOf(oo))))
			}()
			parked := false
			select {
			case <-g.park:
				parked = true
			case <-g.done:
			case <-time.After(60 * time.Second):
				vh.Die("history %d: update %s neither reached its yield point nor answered", h.ID, o.U)
			}
			ev := vh.Ev{"ev": "begin", "u": o.U, "ep": o.Ep, "method": "PUT", "arg": argOf(o), "parked": parked, "point": o.Point,
				"nth": o.Nth, "code": 0}
			if !parked {
				ev["code"] = g.w.code()
			}
			ev["obs"] = x.obs(put0, del0)
			x.tr.Add(ev)
		case "finish":
			put0, del0 := x.counters()
			g := x.byKey[o.U]
			if g == nil && x.mux == nil {
				continue
			}
			if g == nil {
				vh.Die("history %d: finish of unknown update %s", h.ID, o.U)
			}
			if !g.parked { // it never reached its yield point: the begin event already carries the answer
				<-g.done
				delete(x.byKey, o.U)
				continue
			}
			if g.parked {
				select {
				case <-g.done:
				default:
					g.release <- struct{}{}
				}
			}
			select {
			case <-g.done:
			case <-time.After(60 * time.Second):
				vh.Die("history %d: update %s did not answer", h.ID, o.U)
			}
			delete(x.byKey, o.U)
			x.tr.Add(vh.Ev{"ev": "finish", "u": o.U, "code": g.w.code(), "codes": g.w.codes, "body": trunc(g.w.body.String()),
				"obs": x.obs(put0, del0)})
		default:
			vh.Die("unknown op %q", o.Op)
		}
	}
}

// ---------------------------------------------------------------- main

func freePort() int {
	l, err := net.Listen("tcp", ":0")
	if err != nil {
		vh.Die("no free port: %v", err)
	}
	defer l.Close()
	return l.Addr().(*net.TCPAddr).Port
}

func syslogSink() {
	// the engine dials its export server (Fluent Bit's syslog input) at start-up and retries for 2 s when nobody listens
	ln, err := net.Listen("tcp", "127.0.0.1:5140")
	if err != nil {
		return // somebody else (another history running in parallel, the driver) is listening
	}
	go func() {
		for {
			c, err := ln.Accept()
			if err != nil {
				return
			}
			go io.Copy(io.Discard, c) //nolint:errcheck
		}
	}()
}

func child(sc *Script, idx int, outdir string) {
	h := &sc.Histories[idx]
	base := filepath.Join(outdir, fmt.Sprintf("h%d", idx))
	x := &exec{sc: sc, h: h, root: os.Getenv("VERIF_X08_ROOT"), state: filepath.Join(base, "state"), tr: vh.NewTrace(),
		hap: &fakeHAProxy{}, gates: map[uint64]*gated{}, byKey: map[string]*gated{}, doneCh: make(chan struct{}, 4096)}
	ln, err := net.Listen("tcp", ":"+os.Getenv("HAPROXY_MANAGE_ENDPOINTS_PORT"))
	if err != nil {
		fmt.Fprintf(os.Stderr, "harness: port clash: %v\n", err)
		os.Exit(4)
	}
	go http.Serve(ln, x.hap) //nolint:errcheck
	http.DefaultClient.Timeout = 30 * time.Second
	syslogSink()
	verifhook.SetSink(x.sink)
	x.run()
	x.tr.Write(filepath.Join(outdir, fmt.Sprintf("h%d.ndjson", idx)))
}

func main() {
	if len(os.Args) < 4 {
		vh.Die("usage: x08 run <script.json> <outdir>")
	}
	var sc Script
	vh.ReadJSON(os.Args[2], &sc)
	if os.Args[1] == "child" {
		vh.Quiet()
		idx, _ := strconv.Atoi(os.Args[3])
		child(&sc, idx, os.Args[4])
		return
	}
	if os.Args[1] != "run" {
		vh.Die("usage: x08 run <script.json> <outdir>")
	}
	outdir, _ := filepath.Abs(os.Args[3])
	repo := os.Getenv("VERIF_REPO")
	if repo == "" {
		repo = "/repo"
	}
	exe, err := os.Executable()
	if err != nil {
		vh.Die("executable: %v", err)
	}
	out, err := os.Create(filepath.Join(outdir, "trace.ndjson"))
	if err != nil {
		vh.Die("create: %v", err)
	}
	defer out.Close()
	cfg := vh.Ev{"ev": "config"}
	for k, v := range sc.Config {
		cfg[k] = v
	}
	b, _ := json.Marshal(cfg)
	out.Write(append(b, '\n')) //nolint:errcheck
	t0 := time.Now()
	for idx, h := range sc.Histories {
		base := filepath.Join(outdir, fmt.Sprintf("h%d", idx))
		root := filepath.Join(base, "root")
		for _, d := range []string{root, filepath.Join(base, "state"), filepath.Join(base, "cwd")} {
			if err := os.MkdirAll(d, 0o755); err != nil {
				vh.Die("mkdir: %v", err)
			}
		}
		rc := -1
		for attempt := 0; attempt < 4 && rc != 0; attempt++ {
			port := strconv.Itoa(freePort())
			env := map[string]string{
				"LUNAR_STREAMS_ENABLED":              map[bool]string{true: "true", false: "false"}[h.Mode == "flows"],
				"LUNAR_PROXY_FLOW_DIRECTORY":         filepath.Join(root, "flows"),
				"LUNAR_PROXY_QUOTAS_DIRECTORY":       filepath.Join(root, "quotas"),
				"LUNAR_FLOWS_PATH_PARAM_DIR":         filepath.Join(root, "path_params"),
				"LUNAR_PROXY_CONFIG":                 filepath.Join(root, "gateway_config.yaml"),
				"LUNAR_PROXY_METRICS_CONFIG":         filepath.Join(base, "metrics.yaml"),
				"LUNAR_PROXY_METRICS_CONFIG_DEFAULT": filepath.Join(base, "default_metrics.yaml"),
				"LUNAR_PROXY_POLICIES_CONFIG":        filepath.Join(root, "policies.yaml"),
				"LUNAR_PROXY_CONFIG_DIR":             root,
				"HAPROXY_MANAGE_ENDPOINTS_PORT":      port,
				"LUNAR_HEALTHCHECK_PORT":             port,
				"TENANT_NAME":                        "verif",
				"DISCOVERY_STATE_LOCATION":           filepath.Join(base, "state", "discover.json"),
				"REMEDY_STATE_LOCATION":              filepath.Join(base, "state", "remedy.json"),
				"LOG_LEVEL":                          "panic",
				"LUNAR_FLOWS_PATH_PARAM_CONFIG":      filepath.Join(base, "generated_path_params.yaml"),
				"LUNAR_HUB_URL":                      "127.0.0.1:1",
				"LUNAR_HUB_SCHEME":                   "ws",
				"LUNAR_MANAGED":                      h.Managed,
				"VERIF_X08_ROOT":                     root,
				// the defaults of the gateway's Dockerfile, except that the fail-safe watcher polls once an hour
				"DIAGNOSIS_FAILSAFE_MIN_SEC_BETWEEN_CALLS":        "3600",
				"DIAGNOSIS_FAILSAFE_CONSECUTIVE_N":                "5",
				"DIAGNOSIS_FAILSAFE_MIN_STABLE_SEC":               "7",
				"DIAGNOSIS_FAILSAFE_COOLDOWN_SEC":                 "300",
				"DIAGNOSIS_FAILSAFE_HEALTHY_SESSION_RATE":         "0",
				"DIAGNOSIS_FAILSAFE_HEALTHY_MAX_LAST_SESSION_SEC": "5",
			}
			src, err := os.ReadFile(filepath.Join(repo, "proxy/metrics.yaml"))
			if err != nil {
				vh.Die("metrics source: %v", err)
			}
			for _, f := range []string{"metrics.yaml", "default_metrics.yaml"} { // the user's file and the gateway's built-in default
				if err := os.WriteFile(filepath.Join(base, f), src, 0o644); err != nil {
					vh.Die("metrics: %v", err)
				}
			}
			cmd := osexec.Command(exe, "child", os.Args[2], strconv.Itoa(idx), outdir)
			cmd.Dir = filepath.Join(base, "cwd")
			cmd.Env = os.Environ()
			for k, v := range env {
				cmd.Env = append(cmd.Env, k+"="+v)
			}
			var stderr bytes.Buffer
			cmd.Stderr = &stderr
			err = cmd.Run()
			rc = 0
			if err != nil {
				rc = 1
				if ee, ok := err.(*osexec.ExitError); ok {
					rc = ee.ExitCode()
				}
				if rc != 4 {
					s := stderr.String()
					if len(s) > 3000 {
						s = s[len(s)-3000:]
					}
					vh.Die("history %d (index %d) failed rc=%d: %s", h.ID, idx, rc, s)
				}
			}
		}
		if rc != 0 {
			vh.Die("history %d: no usable port", h.ID)
		}
		part, err := os.ReadFile(filepath.Join(outdir, fmt.Sprintf("h%d.ndjson", idx)))
		if err != nil {
			vh.Die("history %d left no trace: %v", h.ID, err)
		}
		out.Write(part) //nolint:errcheck
		os.RemoveAll(base)
		os.Remove(filepath.Join(outdir, fmt.Sprintf("h%d.ndjson", idx)))
	}
	vh.WriteJSON(filepath.Join(outdir, "stats.json"), map[string]any{"histories": len(sc.Histories), "run_ms": time.Since(t0).Milliseconds()})
}
