// c10: executes arrival schedules against the real in-memory delayed priority queue
// (queue.NewInMemoryDelayedPriorityQueue) - directly through Enqueue or through
// StrategyBasedQueuePlugin.OnRequest - on the lock-step clock and records what the
// real code answered, as NDJSON traces for TLC.
//
//	c10 run <scripts.json> <outdir>
//
// scripts.json: [{"config":{"quota":q,"w":ticks,"qsize":n,"mode":"dpq"|"plugin"}, "histories":[[event,...],...]}, ...]
// event: {"ev":"reset","now":t}
//
//	| {"ev":"enq","id":s,"prio":p,"ttl":ticks,"gate":bool}  start Enqueue in its own goroutine; with gate the
//	     goroutine is held at the yield point dpq.before_park (between mutex.Unlock and the select)
//	| {"ev":"park","id":s}      let a held goroutine go on into its select
//	| {"ev":"reconf","quota":q,"w":ticks,"qsize":n}   (plugin) the remedy is re-applied under the same name with another
//	     strategy / queue size: the calls that follow belong to a new configuration epoch ("ep" in their events)
//	| {"ev":"tick","rev":bool}  advance the clock by one tick; the timers that are due are delivered one at a
//	     time, oldest first (rev: youngest first), each followed by a wait until everything is blocked again
//	     with "hold":true the roll-over goroutine is held inside its critical section (where it reads the clock,
//	     right after taking the mutex) while the remaining timers are delivered, until {"ev":"unhold"}
//	| {"ev":"storm","ops":[{"id":remedy,"n":k,"quota":q,"w":ticks},...]}   (plugin) k simultaneous FIRST requests of a
//	     remedy / strategy nobody has used yet (queue size 0: let through or refused at once) -> one "batch" event each
//	| {"ev":"conc","ops":[enq,...]}      arrivals started together
//	| {"ev":"race","ops":[enq,...]}      one tick, then arrivals started together, and only then the due timers (roll-over, TTLs)
//
// After every driver step the driver waits until every goroutine is blocked (goroutine dump, no sleeping)
// and writes a "quiet" event.  At the end of a history the clock runs until every Enqueue has returned.
// One tick = 500 ms.  Pure executor: no oracle logic.
package main

import (
	"context"
	"fmt"
	"os"
	"path/filepath"
	"runtime"
	"sync"
	"sync/atomic"
	"time"

	"go.opentelemetry.io/otel/metric/noop"

	"lunar/engine/actions"
	"lunar/engine/config"
	lunarMessages "lunar/engine/messages"
	"lunar/engine/services/remedies"
	"lunar/engine/utils"
	"lunar/engine/utils/queue"
	sharedConfig "lunar/shared-model/config"
	"lunar/toolkit-core/logging"
	"lunar/toolkit-core/verifhook"

	"verifharness/internal/c12q"
	"verifharness/internal/vh"
)

const (
	tick      = 500 * time.Millisecond
	baseTicks = int64(3_400_000_080) // a multiple of every window length used: grid alignment is preserved
	patience  = 20 * time.Second     // harness failure detection only
	prioHdr   = "X-Priority"
)

type Config struct {
	Quota int64  `json:"quota"`
	W     int64  `json:"w"`
	QSize int64  `json:"qsize"`
	Mode  string `json:"mode"`
}

type Op struct {
	Ev   string `json:"ev,omitempty"`
	Now  int64  `json:"now,omitempty"`
	ID   string `json:"id,omitempty"`
	Prio int    `json:"prio,omitempty"`
	Ttl  int64  `json:"ttl,omitempty"`
	Gate bool   `json:"gate,omitempty"`
	Rev  bool   `json:"rev,omitempty"`
	Hold bool   `json:"hold,omitempty"`
	// race: start the arrivals together instead of one after the other
	Together bool `json:"together,omitempty"`
	// reconf: the remedy (same name) is re-applied with another strategy / queue size
	Quota int64 `json:"quota,omitempty"`
	W     int64 `json:"w,omitempty"`
	QSize int64 `json:"qsize,omitempty"`
	Ops   []Op  `json:"ops,omitempty"`
	// storm: number of simultaneous first requests
	N int `json:"n,omitempty"`
}

type Script struct {
	Config    Config `json:"config"`
	Histories [][]Op `json:"histories"`
}

func at(t int64) time.Time { return time.Unix(0, 0).Add(time.Duration(baseTicks+t) * tick) }

// offsetClock is the clock handed to queue.NewRequest: the lock-step clock plus a fixed offset
type offsetClock struct {
	*c12q.Clock
	off time.Duration
}

func (c offsetClock) Now() time.Time { return c.Clock.Now().Add(c.off) }

type gate struct {
	reached chan struct{}
	release chan struct{}
}

type runner struct {
	cfg     Config
	clk     *c12q.Clock
	dpq     *queue.DelayedPriorityQueue
	plugin  *remedies.StrategyBasedQueuePlugin
	tr      *vh.Trace
	mu      sync.Mutex
	gates   map[string]*gate
	running sync.WaitGroup
	out     int // outstanding Enqueue calls
	ep      int // configuration epoch (number of reconfigurations so far)
	sub     int // arrivals so far in this history (microsecond offset of the next request's timestamp)
}

func (rn *runner) sink(point string, kv ...any) {
	switch point {
	case "dpq.before_park":
		id, _ := kv[1].(string)
		rn.mu.Lock()
		g := rn.gates[id]
		rn.mu.Unlock()
		if g != nil {
			close(g.reached)
			<-g.release
		}
	case "dpq.pop": // called under the queue's mutex: must not block
		id, _ := kv[1].(string)
		d, _ := kv[3].(bool)
		rn.tr.Add(vh.Ev{"ev": "pop", "id": id, "delivered": d})
	}
}

func (rn *runner) strategy() queue.Strategy {
	return queue.Strategy{WindowQuota: rn.cfg.Quota, WindowSize: time.Duration(rn.cfg.W) * tick}
}

func (rn *runner) fresh(now int64) {
	rn.clk = c12q.NewClock(at(now))
	rn.gates = map[string]*gate{}
	rn.dpq, rn.plugin = nil, nil
	verifhook.SetSink(rn.sink)
	newQ := func(key queue.QueueKey) *queue.DelayedPriorityQueue {
		return queue.NewInMemoryDelayedPriorityQueue(key, rn.clk, logging.ContextLogger{})
	}
	switch rn.cfg.Mode {
	case "dpq":
		rn.dpq = newQ(queue.QueueKey{RemedyName: "r", Strategy: rn.strategy()})
	case "plugin":
		rn.plugin = remedies.NewStrategyBasedQueuePlugin(context.Background(), rn.clk, logging.ContextLogger{},
			noop.NewMeterProvider().Meter("c10"),
			func(key queue.QueueKey) queue.DelayedPriorityQueueable { return newQ(key) })
	default:
		vh.Die("unknown mode %q", rn.cfg.Mode)
	}
	rn.quiesce("construction")
}

func (rn *runner) quiesce(what string) {
	if !c12q.Quiesce(patience) {
		vh.Die("no quiescence after %s", what)
	}
}

// the real call; true = the request may proceed
func (rn *runner) call(o Op, cfg Config, req *queue.Request) bool {
	if rn.dpq != nil {
		ok, err := rn.dpq.Enqueue(req, time.Duration(o.Ttl)*tick, cfg.QSize)
		if err != nil {
			vh.Die("Enqueue: %v", err)
		}
		return ok
	}
	return rn.pluginCall("r", o, cfg)
}

// one request through StrategyBasedQueuePlugin.OnRequest for the remedy of the given name
func (rn *runner) pluginCall(name string, o Op, cfg Config) bool {
	if cfg.W%2 != 0 {
		vh.Die("plugin mode needs windows of whole seconds (even ticks): w=%d", cfg.W)
	}
	groups := map[string]sharedConfig.Prioritization{}
	for p := 0; p < 8; p++ {
		groups[fmt.Sprintf("g%d", p)] = sharedConfig.Prioritization{Priority: float64(p)}
	}
	rem := config.ScopedRemedy{
		Scope: utils.ScopeEndpoint, Method: "GET", NormalizedURL: "api.test/x",
		Remedy: &sharedConfig.Remedy{
			Name: name,
			Config: sharedConfig.RemedyConfig{StrategyBasedQueue: &sharedConfig.StrategyBasedQueueConfig{
				AllowedRequestCount: cfg.Quota,
				WindowSizeInSeconds: int(cfg.W / 2),
				ResponseStatusCode:  429,
				TTLSeconds:          float32(o.Ttl) / 2, // may be fractional (x.5 s)
				QueueSize:           cfg.QSize,
				Prioritization: &sharedConfig.GroupPrioritization{
					GroupBy: sharedConfig.GroupBy{HeaderName: prioHdr}, Groups: groups,
				},
			}},
		},
	}
	a, err := rn.plugin.OnRequest(lunarMessages.OnRequest{
		ID: o.ID, Method: "GET", URL: "api.test/x", Headers: map[string]string{prioHdr: fmt.Sprintf("g%d", o.Prio)},
	}, rem)
	if err != nil {
		vh.Die("OnRequest: %v", err)
	}
	switch a.(type) {
	case *actions.NoOpAction:
		return true
	case *actions.EarlyResponseAction:
		return false
	default:
		vh.Die("unexpected action %T", a)
		return false
	}
}

// start launches the call; "begin" is stamped at invocation and completed with the result at return
func (rn *runner) start(o Op) {
	if o.Gate {
		rn.mu.Lock()
		rn.gates[o.ID] = &gate{reached: make(chan struct{}), release: make(chan struct{})}
		rn.mu.Unlock()
	}
	rn.mu.Lock()
	rn.out++
	rn.mu.Unlock()
	rn.running.Add(1)
	b := rn.tr.Stamp()
	ep, cfg := rn.ep, rn.cfg // the configuration in force when the call is made
	// The request object is made by the driver, in the order of the calls, with a timestamp a microsecond later
	// than the previous one of this history: arrivals within one tick are ordered (sub = that order), the
	// queue's own clock stays on the tick grid.  (Through the plugin the request is made inside OnRequest.)
	var req *queue.Request
	sub := 0
	if rn.dpq != nil {
		rn.sub++
		sub = rn.sub
		req = queue.NewRequest(o.ID, float64(o.Prio), offsetClock{rn.clk, time.Duration(sub) * time.Microsecond})
	}
	go func() {
		defer rn.running.Done()
		ok := rn.call(o, cfg, req)
		rn.tr.AddAt(b, vh.Ev{"ev": "begin", "id": o.ID, "prio": o.Prio, "ttl": o.Ttl, "ok": ok, "ep": ep, "sub": sub})
		rn.tr.Add(vh.Ev{"ev": "end", "id": o.ID, "ok": ok, "ep": ep})
		rn.mu.Lock()
		rn.out--
		rn.mu.Unlock()
	}()
}

func (rn *runner) outstanding() int { rn.mu.Lock(); defer rn.mu.Unlock(); return rn.out }

// tickOnce moves the clock by one tick without waking anybody
func (rn *runner) tickOnce(now *int64) {
	*now++
	rn.clk.SetNow(at(*now))
	rn.tr.Add(vh.Ev{"ev": "adv", "d": 1})
}

// fire delivers the due timers one at a time (oldest first, or youngest first), letting the woken goroutine
// run until everything is blocked again before the next one: races inside one instant are the driver's choice
func (rn *runner) fire(rev bool) {
	for rn.clk.FireNext(rev) {
		rn.quiesce("timer")
	}
}

func (rn *runner) quiet(what string) {
	rn.quiesce(what)
	held := 0
	if rn.clk.Held() { // the roll-over goroutine is held inside its critical section
		held = 1
	}
	rn.tr.Add(vh.Ev{"ev": "quiet", "held": held})
}

func (rn *runner) releaseAll() {
	rn.mu.Lock()
	for id, g := range rn.gates {
		select {
		case <-g.release:
		default:
			close(g.release)
		}
		delete(rn.gates, id)
	}
	rn.mu.Unlock()
}

func main() {
	vh.Quiet()
	if len(os.Args) != 4 || os.Args[1] != "run" {
		vh.Die("usage: c10 run <scripts.json> <outdir>")
	}
	var scripts []Script
	vh.ReadJSON(os.Args[2], &scripts)
	for si, sc := range scripts {
		tr := vh.NewTrace()
		tr.Add(vh.Ev{"ev": "config", "quota": sc.Config.Quota, "w": sc.Config.W, "qsize": sc.Config.QSize, "mode": sc.Config.Mode})
		rn := &runner{cfg: sc.Config, tr: tr}
		for _, h := range sc.Histories {
			var now int64
			for _, e := range h {
				switch e.Ev {
				case "reset":
					now = e.Now
					rn.ep, rn.cfg, rn.sub = 0, sc.Config, 0
					tr.Add(vh.Ev{"ev": "reset", "now": now})
					rn.fresh(now)
				case "enq":
					rn.start(e)
					rn.quiet("enq")
				case "reconf": // policies re-applied: same remedy name, new strategy (plugin mode)
					if rn.plugin == nil {
						vh.Die("reconf needs plugin mode")
					}
					rn.ep++
					rn.cfg.Quota, rn.cfg.W, rn.cfg.QSize = e.Quota, e.W, e.QSize
					tr.Add(vh.Ev{"ev": "reconf", "ep": rn.ep, "quota": e.Quota, "w": e.W, "qsize": e.QSize})
				case "park":
					rn.mu.Lock()
					g := rn.gates[e.ID]
					delete(rn.gates, e.ID)
					rn.mu.Unlock()
					if g != nil {
						close(g.release)
					}
					rn.quiet("park")
				case "tick":
					rn.tickOnce(&now)
					if e.Hold { // hold the roll-over goroutine inside its critical section (it reads the clock there)
						rn.clk.HoldNow("DelayedPriorityQueue).process", "ensureWindowIsUpdated")
					}
					rn.fire(e.Rev)
					if e.Hold && !rn.clk.Held() {
						rn.clk.ReleaseNow() // the roll-over did not run in this tick
					}
					rn.quiet("tick")
				case "unhold":
					rn.clk.ReleaseNow()
					rn.quiet("unhold")
				case "conc":
					for _, o := range e.Ops {
						rn.start(o)
					}
					rn.quiet("conc")
				case "storm":
					// first use of per-remedy state: for every op, n goroutines released by a start barrier make the
					// FIRST requests of a remedy (strategy) nobody has used yet, all at one instant.  The queue size
					// is 0, so a request that is not let through is refused at once: one compact "batch" event each.
					if rn.plugin == nil {
						vh.Die("storm needs plugin mode")
					}
					for _, o := range e.Ops {
						cfg := Config{Quota: o.Quota, W: o.W, QSize: 0, Mode: "plugin"}
						var wg sync.WaitGroup
						var rel atomic.Int64
						startCh := make(chan struct{})
						for g := 0; g < o.N; g++ {
							wg.Add(1)
							go func(g int) {
								defer wg.Done()
								<-startCh
								runtime.Gosched()
								if rn.pluginCall(o.ID, Op{ID: fmt.Sprintf("%s.%d", o.ID, g), Ttl: 2}, cfg) {
									rel.Add(1)
								}
							}(g)
						}
						close(startCh)
						wg.Wait()
						tr.Add(vh.Ev{"ev": "batch", "name": o.ID, "n": o.N, "rel": rel.Load(), "quota": o.Quota, "w": o.W})
					}
				case "race": // the arrivals run before the timers of the new instant are delivered
					rn.tickOnce(&now)
					if e.Hold {
						rn.clk.HoldNow("DelayedPriorityQueue).process", "ensureWindowIsUpdated")
					}
					for _, o := range e.Ops {
						rn.start(o)
						if !e.Together { // one after the other, or started together
							rn.quiesce("race arrival")
						}
					}
					rn.quiesce("race arrivals")
					rn.fire(e.Rev)
					if e.Hold && !rn.clk.Held() {
						rn.clk.ReleaseNow()
					}
					rn.quiet("race")
				default:
					vh.Die("unknown event %q", e.Ev)
				}
			}
			// run the history out: let held goroutines go, then tick until every call has returned
			rn.clk.ReleaseNow()
			rn.releaseAll()
			rn.quiet("release")
			for n := 0; rn.outstanding() > 0; n++ {
				if n > 10000 {
					vh.Die("calls do not return")
				}
				rn.tickOnce(&now)
				rn.fire(false)
				rn.quiet("drain")
			}
			rn.running.Wait()
		}
		tr.Write(filepath.Join(os.Args[3], fmt.Sprintf("trace-%03d.ndjson", si)))
	}
}
