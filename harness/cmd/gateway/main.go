// gateway: runs whole-engine histories (requests, responses, proxy errors, clock advances) against one real
// flows-mode engine built from YAML and records, per transaction, the processors that ran (proc.exec point) with the
// actions each of them handed back, the user flows the engine counted as invoked, the folded + SPOE-encoded answer
// (routing.getSPOEReqActions / getSPOERespActions on exactly those actions) and the outcome - NDJSON for TLC
// (specs/gateway/GatewayTrace.tla).  A pure executor: nothing here judges an outcome.
//
//	gateway run <scripts.json> <outdir>
//
// scripts.json: [{"config":{...}, "files":{rel: yaml}, "histories":[[event,...],...]}, ...]
// event: {"ev":"reset","now":t} | {"ev":"adv","d":d}
//
//	| {"ev":"req","id":..,"sq":sequence id,"method":..,"url":[[host labels],[path segments]],"qry":[[k,v],..],"hdr":{..},"body":..}
//	| {"ev":"res","id":..,"sq":..,"method":..,"url":..,"status":n,"hdr":{..},"body":..,"chain":[n,..]} | {"ev":"err","id":..}
//
// When the answer to a response asks for a retry the executor does what the proxy does: it sends the request of that sequence
// again (new transaction id "<id>.r<k>", same sequence id) and hands the next status of "chain" back as the provider's answer -
// as long as the engine asks for retries and the chain lasts.  Re-sent transactions are recorded like any other ("resent": true).
//
// One tick = 500 ms.
package main

import (
	"fmt"
	"os"
	"path/filepath"
	"regexp"
	"sort"
	"strings"
	"sync/atomic"
	"time"

	"lunar/engine/actions"
	lunar_messages "lunar/engine/messages"
	"lunar/engine/routing"
	stream_config "lunar/engine/streams/config"
	lunar_context "lunar/engine/streams/lunar-context"
	read_cache "lunar/engine/streams/processors/read-cache"
	write_cache "lunar/engine/streams/processors/write-cache"
	public_types "lunar/engine/streams/public-types"
	stream_types "lunar/engine/streams/types"
	"lunar/toolkit-core/verifhook"

	"github.com/negasus/haproxy-spoe-go/action"

	"verifharness/internal/c01eng"
	"verifharness/internal/vh"
)

const (
	tick      = 500 * time.Millisecond
	baseTicks = int64(3_400_000_080)
)

type Event struct {
	Ev     string            `json:"ev"`
	Now    int64             `json:"now,omitempty"`
	D      int64             `json:"d,omitempty"`
	ID     string            `json:"id,omitempty"`
	Sq     string            `json:"sq,omitempty"`
	Method string            `json:"method,omitempty"`
	URL    [2][]string       `json:"url,omitempty"`
	Qry    [][2]string       `json:"qry,omitempty"`
	Hdr    map[string]string `json:"hdr,omitempty"`
	Body   string            `json:"body,omitempty"`
	Status int               `json:"status,omitempty"`
	Chain  []int             `json:"chain,omitempty"` // statuses of the provider's answers to the re-sent requests, should the engine ask for retries
}

type Script struct {
	Config    map[string]any    `json:"config"`
	Files     map[string]string `json:"files"`
	Histories [][]Event         `json:"histories"`
}

func at(t int64) time.Time { return time.Unix(0, 0).Add(time.Duration(baseTicks+t) * tick) }

func render(u [2][]string) string {
	s := strings.Join(u[0], ".")
	if len(u[1]) > 0 {
		s += "/" + strings.Join(u[1], "/")
	}
	return s
}

func query(q [][2]string) string {
	parts := []string{}
	for _, e := range q {
		parts = append(parts, e[0]+"="+e[1])
	}
	return strings.Join(parts, "&")
}

// ------------------------------------------------------------------ observation of processor executions

var (
	cur     []vh.Ev
	marks   []int // number of actions handed back before the i-th processor execution of the transaction
	curActs *stream_config.StreamActions
	sysFlow = regexp.MustCompile(`^SystemFlow_(.*)_SYSTEM_FLOW_(?:START|END)$`)
	sysProc = regexp.MustCompile(`^(.*)_QuotaProcessor(Inc|Dec)$`)
	dirs    = map[string]string{"StreamTypeRequest": "req", "StreamTypeResponse": "res"}
)

func nActs() int {
	if curActs == nil {
		return 0
	}
	n := 0
	if curActs.Request != nil {
		n += len(curActs.Request.Actions)
	}
	if curActs.Response != nil {
		n += len(curActs.Response.Actions)
	}
	return n
}

var gcDone atomic.Int64 // completed background passes of the concurrency quotas' collectors (point cq.gc.done)

func waitFor(eng *c01eng.Engine, what string, cond func() bool) {
	deadline := time.Now().Add(10 * time.Second)
	for !cond() {
		if time.Now().After(deadline) {
			vh.Die("timeout waiting for %s (gc passes done=%d, timers=%d)", what, gcDone.Load(), len(eng.Clk.PendingTimers()))
		}
		time.Sleep(50 * time.Microsecond)
	}
}

// advance moves the mock clock one tick at a time and waits until the collector passes that the tick made due have completed and
// re-armed their timers, so that no later event races with a background pass (as harness/cmd/c02 does).
func advance(eng *c01eng.Engine, from, d int64, ngc int) {
	for i := int64(1); i <= d; i++ {
		target := at(from + i)
		if ngc == 0 {
			eng.Clk.Set(target)
			continue
		}
		due := 0
		for _, p := range eng.Clk.PendingTimers() {
			if !p.After(target) {
				due++
			}
		}
		want := gcDone.Load() + int64(due)
		eng.Clk.Set(target)
		waitFor(eng, "gc passes", func() bool { return gcDone.Load() >= want && len(eng.Clk.PendingTimers()) >= ngc })
	}
}

func sink(point string, kv ...any) {
	if point == "cq.gc.done" {
		gcDone.Add(1)
		return
	}
	if point != "proc.exec" {
		return
	}
	e := vh.Ev{"sid": "", "sys": "", "q": ""}
	for i := 0; i+1 < len(kv); i += 2 {
		k := fmt.Sprint(kv[i])
		v := fmt.Sprint(kv[i+1])
		switch k {
		case "flow", "key", "out":
			e[k] = v
		case "dir":
			if d, ok := dirs[v]; ok {
				v = d
			}
			e["dir"] = v
		}
	}
	// projection of generated names: system flow id, quota id and Inc/Dec of a quota's system processor
	if m := sysFlow.FindStringSubmatch(fmt.Sprint(e["flow"])); m != nil {
		e["sid"] = m[1]
		if p := sysProc.FindStringSubmatch(fmt.Sprint(e["key"])); p != nil {
			e["q"] = p[1]
			if p[2] == "Inc" {
				e["sys"] = "inc"
			} else {
				e["sys"] = "dec"
			}
		}
	}
	cur = append(cur, e)
	marks = append(marks, nActs())
}

// ------------------------------------------------------------------ projection of actions (as harness/cmd/c07)

type Act struct {
	K  string      `json:"k"`
	H  [][2]string `json:"h"`
	St int         `json:"st"`
	B  string      `json:"b"`
	P  string      `json:"p"`
	Ho string      `json:"ho"`
	Q  string      `json:"q"`
	Rm []string    `json:"rm"`
}

type Out struct {
	Names   []string    `json:"names"`
	Early   bool        `json:"early"`
	ModReq  bool        `json:"modreq"`
	Gen     bool        `json:"gen"`
	ModResp bool        `json:"modresp"`
	Retry   bool        `json:"retry"`
	St      int         `json:"st"`
	Body    string      `json:"body"`
	Rh      [][2]string `json:"rh"`
	Qh      [][2]string `json:"qh"`
	QBody   string      `json:"qbody"`
	Path    string      `json:"path"`
	Host    string      `json:"host"`
	Query   string      `json:"query"`
	Th      [][2]string `json:"th"`
	Bad     []string    `json:"bad"`
}

func hpairs(m map[string]string) [][2]string {
	out := make([][2]string, 0, len(m))
	for k, v := range m {
		out = append(out, [2]string{k, v})
	}
	sort.Slice(out, func(i, j int) bool { return out[i][0] < out[j][0] })
	return out
}

func strs(s []string) []string {
	if s == nil {
		return []string{}
	}
	return append([]string{}, s...)
}

// snapshot of a real action object (deep copy: the fold may update actions in place)
func actOf(x any) Act {
	a := Act{H: [][2]string{}, Rm: []string{}}
	switch v := x.(type) {
	case nil:
		a.K = "nil"
	case *actions.NoOpAction:
		a.K = "noop"
	case *actions.EarlyResponseAction:
		a.K, a.St, a.B, a.H = "early", v.Status, v.Body, hpairs(v.Headers)
	case *actions.ModifyHeadersAction:
		a.K, a.H = "modh", hpairs(v.HeadersToSet)
	case *actions.ModifyRequestAction:
		a.K, a.H, a.Ho, a.P, a.Q, a.B = "modreq", hpairs(v.HeadersToSet), v.Host, v.Path, v.QueryParams, v.Body
	case *actions.GenerateRequestAction:
		a.K, a.H, a.Rm, a.B = "gen", hpairs(v.HeadersToSet), strs(v.HeadersToRemove), v.Body
	case *actions.ModifyResponseAction:
		a.K, a.H, a.B, a.St = "modresp", hpairs(v.HeadersToSet), v.Body, v.Status
	case *actions.RetryRequestAction:
		a.K, a.H = "retry", hpairs(v.HeadersToSet)
	default:
		a.K = fmt.Sprintf("unknown:%T", x)
	}
	return a
}

// parseDump inverts utils.DumpHeaders ("name:value\n" per header).
func parseDump(s string, bad *[]string, what string) [][2]string {
	m := map[string]string{}
	if !strings.HasSuffix(s, "\n") && s != "" {
		*bad = append(*bad, what+":no-trailing-newline")
	}
	for _, line := range strings.Split(strings.TrimSuffix(s, "\n"), "\n") {
		if line == "" {
			continue
		}
		i := strings.Index(line, ":")
		if i < 0 {
			*bad = append(*bad, what+":malformed-line")
			continue
		}
		if _, dup := m[line[:i]]; dup {
			*bad = append(*bad, what+":duplicate-header")
		}
		m[line[:i]] = line[i+1:]
	}
	return hpairs(m)
}

func asString(v any, bad *[]string, name string) string {
	switch x := v.(type) {
	case string:
		return x
	case []byte:
		return string(x)
	}
	*bad = append(*bad, name+":type")
	return ""
}

func asBool(v any, bad *[]string, name string) bool {
	if b, ok := v.(bool); ok {
		return b
	}
	*bad = append(*bad, name+":type")
	return false
}

func asInt(v any, bad *[]string, name string) int {
	switch x := v.(type) {
	case int:
		return x
	case int32:
		return int(x)
	case int64:
		return int(x)
	}
	*bad = append(*bad, name+":type")
	return -1
}

// decode projects the SPOE actions handed to the proxy onto the record the specification (ActionsP) talks about.
func decode(as action.Actions) Out {
	o := Out{Names: []string{}, St: -1, Rh: [][2]string{}, Qh: [][2]string{}, Th: [][2]string{}, Bad: []string{}}
	seen := map[string]bool{}
	for _, a := range as {
		if a.Type != action.TypeSetVar {
			o.Bad = append(o.Bad, a.Name+":not-set-var")
			continue
		}
		if seen[a.Name] {
			o.Bad = append(o.Bad, a.Name+":duplicate-variable")
		}
		seen[a.Name] = true
		o.Names = append(o.Names, a.Name)
		switch a.Name {
		case actions.ReturnEarlyResponseActionName:
			o.Early = asBool(a.Value, &o.Bad, a.Name)
		case actions.StatusCodeActionName:
			o.St = asInt(a.Value, &o.Bad, a.Name)
		case actions.ResponseBodyActionName:
			o.Body = asString(a.Value, &o.Bad, a.Name)
		case actions.ResponseHeadersActionName:
			o.Rh = parseDump(asString(a.Value, &o.Bad, a.Name), &o.Bad, a.Name)
		case actions.ModifyRequestActionName:
			o.ModReq = asBool(a.Value, &o.Bad, a.Name)
		case actions.GenerateRequestActionName:
			o.Gen = asBool(a.Value, &o.Bad, a.Name)
		case actions.RequestHeadersActionName:
			o.Qh = parseDump(asString(a.Value, &o.Bad, a.Name), &o.Bad, a.Name)
		case actions.RequestBodyActionName:
			o.QBody = asString(a.Value, &o.Bad, a.Name)
		case actions.RequestPathActionName:
			o.Path = asString(a.Value, &o.Bad, a.Name)
		case actions.RequestHostActionName:
			o.Host = asString(a.Value, &o.Bad, a.Name)
		case actions.RequestQueryParamsActionName:
			o.Query = asString(a.Value, &o.Bad, a.Name)
		case actions.ModifyResponseActionName:
			o.ModResp = asBool(a.Value, &o.Bad, a.Name)
		case actions.RetryRequestActionName:
			o.Retry = asBool(a.Value, &o.Bad, a.Name)
		case actions.RetryHeadersActionName:
			o.Th = parseDump(asString(a.Value, &o.Bad, a.Name), &o.Bad, a.Name)
		}
	}
	return o
}

// ------------------------------------------------------------------ one transaction

var (
	shared  = lunar_context.NewMemoryState[[]byte]()
	lastReq = map[string]Event{} // sequence id -> its request (what the proxy sends again on a retry)
)

func copyHdr(h map[string]string) map[string]string {
	m := map[string]string{}
	for k, v := range h {
		m[k] = v
	}
	return m
}

func pairsOf(h map[string]string) [][2]string { return hpairs(h) }

func sq(e Event) string {
	if e.Sq != "" {
		return e.Sq
	}
	return e.ID
}

func nz2(s [][2]string) [][2]string {
	if s == nil {
		return [][2]string{}
	}
	return s
}

// attaches to every processor execution the actions it handed back (those appended between its execution and the next one)
func attribute(acts []Act) {
	for i := range cur {
		lo, hi := marks[i], len(acts)
		if i+1 < len(marks) {
			hi = marks[i+1]
		}
		if lo > len(acts) {
			lo = len(acts)
		}
		if hi > len(acts) {
			hi = len(acts)
		}
		if hi < lo {
			hi = lo
		}
		cur[i]["acts"] = append([]Act{}, acts[lo:hi]...)
	}
}

func invDelta(before, after map[string]int64) []string {
	out := []string{}
	for k, v := range after {
		if v > before[k] {
			out = append(out, k)
		}
	}
	sort.Strings(out)
	return out
}

// runs fn, turning a panic of the engine into an outcome (an observation, judged by the specification)
func guarded(fn func() error) (msg string, panicked bool) {
	defer func() {
		if r := recover(); r != nil {
			msg, panicked = fmt.Sprint(r), true
		}
	}()
	if err := fn(); err != nil {
		return err.Error(), false
	}
	return "", false
}

// projection of the engine's error message on the classes the specification names
func errClass(msg string) string {
	switch {
	case msg == "":
		return ""
	case strings.Contains(msg, "invalid stream type"):
		return "invalid-stream-type"
	case strings.Contains(msg, "response not found"):
		return "response-not-found"
	}
	return "other"
}

func doRequest(eng *c01eng.Engine, e Event) vh.Ev {
	cur, marks = []vh.Ev{}, []int{}
	args := lunar_messages.OnRequest{
		ID: e.ID, SequenceID: sq(e), Method: e.Method, Scheme: "https", URL: render(e.URL), Query: query(e.Qry),
		Path: "/" + strings.Join(e.URL[1], "/"), Headers: copyHdr(e.Hdr), RawBody: []byte(e.Body), Time: eng.Clk.Now(),
	}
	api := stream_types.NewRequestAPIStream(args, shared)
	acts := &stream_config.StreamActions{Request: &stream_config.RequestStream{}, Response: &stream_config.ResponseStream{}}
	curActs = acts
	before := eng.S.GetFlowInvocations()
	msg, panicked := guarded(func() error { return eng.S.ExecuteFlow(api, acts) })
	api.StoreRequest() // routing.processRequest (full request message): defer apiStream.StoreRequest()
	after := eng.S.GetFlowInvocations()
	outcome := "ok"
	if panicked {
		outcome = "panic"
	} else if msg != "" {
		outcome = "error"
	}
	list := []Act{}
	for _, a := range acts.Request.Actions {
		list = append(list, actOf(a))
	}
	nresp := len(acts.Response.Actions)
	attribute(list)
	// the answer handed to the proxy: the real fold + SPOE encoding of exactly these actions
	var out Out
	if outcome == "ok" {
		args2 := args
		args2.Headers = copyHdr(e.Hdr)
		m, p := guarded(func() error { out = decode(routing.VerifGetSPOEReqActions(args2, acts.Request.Actions)); return nil })
		if p {
			out = decode(nil)
			out.Bad = append(out.Bad, "fold-panic:"+m)
		}
	} else {
		out = decode(nil)
	}
	status := 0
	if out.Early {
		status = out.St
	}
	x := vh.Ev{"side": "req", "url": []any{e.URL[0], nzs(e.URL[1])}, "method": e.Method, "hdr": pairsOf(e.Hdr), "qry": nz2(e.Qry), "status": 0}
	return vh.Ev{"ev": "tx", "dir": "req", "id": e.ID, "sq": sq(e), "x": x, "body": e.Body, "seq": cur, "inv": invDelta(before, after),
		"acts": list, "nresp": nresp, "out": out, "status": status, "outcome": outcome, "msg": msg, "errclass": errClass(msg)}
}

func nzs(s []string) []string {
	if s == nil {
		return []string{}
	}
	return s
}

func doResponse(eng *c01eng.Engine, e Event) vh.Ev {
	cur, marks = []vh.Ev{}, []int{}
	args := lunar_messages.OnResponse{
		ID: e.ID, SequenceID: sq(e), Method: e.Method, URL: render(e.URL), Status: e.Status, Headers: copyHdr(e.Hdr),
		RawBody: []byte(e.Body), Time: eng.Clk.Now(),
	}
	api := stream_types.NewResponseAPIStream(args, shared)
	acts := &stream_config.StreamActions{Request: &stream_config.RequestStream{}, Response: &stream_config.ResponseStream{}}
	curActs = acts
	msg, panicked := guarded(func() error { return eng.S.ExecuteFlow(api, acts) })
	api.DiscardRequest() // routing.processResponse (full response message): defer apiStream.DiscardRequest()
	outcome := "ok"
	if panicked {
		outcome = "panic"
	} else if msg != "" {
		outcome = "error"
	}
	list := []Act{}
	for _, a := range acts.Response.Actions {
		list = append(list, actOf(a))
	}
	attribute(list)
	var out Out
	if outcome == "ok" {
		args2 := args
		args2.Headers = copyHdr(e.Hdr)
		m, p := guarded(func() error { out = decode(routing.VerifGetSPOERespActions(args2, acts.Response.Actions)); return nil })
		if p {
			out = decode(nil)
			out.Bad = append(out.Bad, "fold-panic:"+m)
		}
	} else {
		out = decode(nil)
	}
	x := vh.Ev{"side": "resp", "url": []any{e.URL[0], nzs(e.URL[1])}, "method": e.Method, "hdr": pairsOf(e.Hdr), "qry": [][2]string{}, "status": e.Status}
	hsz := 0
	for k, v := range e.Hdr {
		hsz += len(k) + len(v)
	}
	return vh.Ev{"ev": "tx", "dir": "res", "id": e.ID, "sq": sq(e), "x": x, "body": e.Body, "bsz": len(e.Body), "hsz": hsz, "seq": cur,
		"acts": list, "out": out, "outcome": outcome, "msg": msg, "errclass": errClass(msg)}
}

// joinCaches gives the ReadCache and the WriteCache processor of a flow one common store (what the shared state of a deployment
// gives them; in this build every processor owns a private one): config "CacheJoin": [[flow, ReadCache key, WriteCache key],..]
func joinCaches(eng *c01eng.Engine, cfg map[string]any) {
	joins, _ := cfg["CacheJoin"].([]any)
	for _, j := range joins {
		t, _ := j.([]any)
		if len(t) != 3 {
			vh.Die("bad CacheJoin entry %v", j)
		}
		store := lunar_context.NewMemoryState[[]byte]()
		for i, set := range []func(stream_types.ProcessorI, public_types.SharedStateI[[]byte]) bool{read_cache.VerifSetStore, write_cache.VerifSetStore} {
			p, ok := eng.S.VerifProcessor(fmt.Sprint(t[0]), fmt.Sprint(t[i+1]))
			if !ok || !set(p, store) {
				vh.Die("CacheJoin: processor %v/%v not found or of the wrong kind", t[0], t[i+1])
			}
		}
	}
}

func main() {
	vh.Quiet()
	verifhook.SetSink(sink)
	if len(os.Args) != 4 || os.Args[1] != "run" {
		vh.Die("usage: gateway run <scripts.json> <outdir>")
	}
	var scripts []Script
	vh.ReadJSON(os.Args[2], &scripts)
	for si := range scripts {
		sc := &scripts[si]
		dir, err := c01eng.WriteFiles(sc.Files)
		if err != nil {
			vh.Die("files: %v", err)
		}
		tr := vh.NewTrace()
		cfg := vh.Ev{"ev": "config"}
		for k, v := range sc.Config {
			cfg[k] = v
		}
		tr.Add(cfg)
		var eng *c01eng.Engine
		// a configuration the loader rejects is recorded as such and skipped (the loader's verdicts are C05's subject)
		if probe, perr := c01eng.New(dir, at(2), nil); perr != nil {
			tr.Add(vh.Ev{"ev": "loadfail", "error": perr.Error()})
			tr.Write(filepath.Join(os.Args[3], fmt.Sprintf("trace-%03d.ndjson", si)))
			os.RemoveAll(dir)
			continue
		} else {
			eng = probe
		}
		ngc := 0 // concurrency quotas = collector goroutines
		if kinds, ok := sc.Config["QKind"].(map[string]any); ok {
			for _, k := range kinds {
				if k == "conc" {
					ngc++
				}
			}
		}
		for _, h := range sc.Histories {
			var now int64
			for _, e := range h {
				switch e.Ev {
				case "reset":
					now = e.Now
					eng, err = c01eng.New(dir, at(now), eng)
					if err != nil {
						vh.Die("engine: %v", err)
					}
					waitFor(eng, "gc timers armed", func() bool { return len(eng.Clk.PendingTimers()) >= ngc })
					joinCaches(eng, sc.Config)
					shared = lunar_context.NewMemoryState[[]byte]()
					lastReq = map[string]Event{}
					tr.Add(vh.Ev{"ev": "reset", "now": now})
				case "adv":
					// one trace event per tick: the engine really sees every tick (with its collector passes)
					for i := int64(0); i < e.D; i++ {
						advance(eng, now, 1, ngc)
						now++
						tr.Add(vh.Ev{"ev": "adv", "d": 1})
					}
				case "req":
					lastReq[sq(e)] = e
					tr.Add(doRequest(eng, e))
				case "res":
					ev := doResponse(eng, e)
					tr.Add(ev)
					for k := 0; k < len(e.Chain) && ev["out"].(Out).Retry; k++ {
						re, known := lastReq[sq(e)]
						if !known {
							break
						}
						re.ID, re.Sq = fmt.Sprintf("%s.r%d", e.ID, k+1), sq(e)
						rev := doRequest(eng, re)
						rev["resent"] = true
						tr.Add(rev)
						if rev["out"].(Out).Early || rev["outcome"] != "ok" {
							break
						}
						rs := e
						rs.ID, rs.Sq, rs.Status, rs.Chain = re.ID, sq(e), e.Chain[k], nil
						ev = doResponse(eng, rs)
						ev["resent"] = true
						tr.Add(ev)
					}
				case "err":
					eng.S.OnError(e.ID)
					tr.Add(vh.Ev{"ev": "err", "id": e.ID})
				default:
					vh.Die("unknown event %q", e.Ev)
				}
			}
		}
		if eng != nil {
			eng.Close()
		}
		tr.Write(filepath.Join(os.Args[3], fmt.Sprintf("trace-%03d.ndjson", si)))
		os.RemoveAll(dir)
	}
}
