// gateway: runs whole-engine histories (requests, responses, proxy errors, clock advances) against one real
// flows-mode engine built from YAML and records, per transaction, the processors that ran (proc.exec point),
// the answer and the outcome - NDJSON for TLC (specs/gateway/GatewayTrace.tla).
//
//	gateway run <scripts.json> <outdir>
//
// scripts.json: [{"config":{...}, "files":{rel: yaml}, "histories":[[event,...],...]}, ...]
// event: {"ev":"reset","now":t} | {"ev":"adv","d":d} | {"ev":"req","id":..,"url":..,"hdr":{..}} |
//
//	{"ev":"res","id":..,"url":..,"status":n} | {"ev":"err","id":..}
//
// One tick = 500 ms.
package main

import (
	"fmt"
	"os"
	"path/filepath"
	"regexp"
	"time"

	"lunar/toolkit-core/verifhook"

	"verifharness/internal/c01eng"
	"verifharness/internal/vh"
)

const (
	tick      = 500 * time.Millisecond
	baseTicks = int64(3_400_000_080)
)

type Event struct {
	Ev     string            `json:"ev"`
	Now    int64             `json:"now,omitempty"`
	D      int64             `json:"d,omitempty"`
	ID     string            `json:"id,omitempty"`
	URL    string            `json:"url,omitempty"`
	Hdr    map[string]string `json:"hdr,omitempty"`
	Status int               `json:"status,omitempty"`
}

type Script struct {
	Config    map[string]any    `json:"config"`
	Files     map[string]string `json:"files"`
	Histories [][]Event         `json:"histories"`
}

func at(t int64) time.Time { return time.Unix(0, 0).Add(time.Duration(baseTicks+t) * tick) }

var (
	cur     []vh.Ev
	sysFlow = regexp.MustCompile(`^SystemFlow_(.*)_SYSTEM_FLOW_(?:START|END)$`)
	sysProc = regexp.MustCompile(`^(.*)_QuotaProcessor(Inc|Dec)$`)
	dirs    = map[string]string{"StreamTypeRequest": "req", "StreamTypeResponse": "res"}
)

func sink(point string, kv ...any) {
	if point == "fw.inc" && os.Getenv("GW_DEBUG") != "" {
		fmt.Fprintln(os.Stderr, "fw.inc", kv)
	}
	if point != "proc.exec" {
		return
	}
	e := vh.Ev{"sid": "", "sys": "", "q": ""}
	for i := 0; i+1 < len(kv); i += 2 {
		k := fmt.Sprint(kv[i])
		v := fmt.Sprint(kv[i+1])
		switch k {
		case "flow", "key", "out":
			e[k] = v
		case "dir":
			if d, ok := dirs[v]; ok {
				v = d
			}
			e["dir"] = v
		}
	}
	// projection of generated names: system flow id, quota id and Inc/Dec of a quota's system processor
	if m := sysFlow.FindStringSubmatch(fmt.Sprint(e["flow"])); m != nil {
		e["sid"] = m[1]
		if p := sysProc.FindStringSubmatch(fmt.Sprint(e["key"])); p != nil {
			e["q"] = p[1]
			if p[2] == "Inc" {
				e["sys"] = "inc"
			} else {
				e["sys"] = "dec"
			}
		}
	}
	cur = append(cur, e)
}

func main() {
	vh.Quiet()
	verifhook.SetSink(sink)
	if len(os.Args) != 4 || os.Args[1] != "run" {
		vh.Die("usage: gateway run <scripts.json> <outdir>")
	}
	var scripts []Script
	vh.ReadJSON(os.Args[2], &scripts)
	for si := range scripts {
		sc := &scripts[si]
		dir, err := c01eng.WriteFiles(sc.Files)
		if err != nil {
			vh.Die("files: %v", err)
		}
		tr := vh.NewTrace()
		cfg := vh.Ev{"ev": "config"}
		for k, v := range sc.Config {
			cfg[k] = v
		}
		tr.Add(cfg)
		var eng *c01eng.Engine
		// a configuration the loader rejects is recorded as such and skipped (the loader's verdicts are C05's subject)
		if probe, perr := c01eng.New(dir, at(2), nil); perr != nil {
			tr.Add(vh.Ev{"ev": "loadfail", "error": perr.Error()})
			tr.Write(filepath.Join(os.Args[3], fmt.Sprintf("trace-%03d.ndjson", si)))
			os.RemoveAll(dir)
			continue
		} else {
			eng = probe
		}
		for _, h := range sc.Histories {
			var now int64
			for _, e := range h {
				switch e.Ev {
				case "reset":
					now = e.Now
					eng, err = c01eng.New(dir, at(now), eng)
					if err != nil {
						vh.Die("engine: %v", err)
					}
					tr.Add(vh.Ev{"ev": "reset", "now": now})
				case "adv":
					now += e.D
					eng.Clk.Set(at(now))
					tr.Add(vh.Ev{"ev": "adv", "d": e.D})
				case "req":
					cur = []vh.Ev{}
					res := eng.Request(e.ID, "GET", e.URL, e.Hdr)
					outcome := "ok"
					if res.Err != "" {
						outcome = "error"
					}
					tr.Add(vh.Ev{"ev": "tx", "dir": "req", "id": e.ID, "url": e.URL, "hdr": e.Hdr, "seq": cur, "status": res.Status, "outcome": outcome})
				case "res":
					cur = []vh.Ev{}
					msg := eng.Response(e.ID, "GET", e.URL, e.Status, nil)
					outcome := "ok"
					if msg != "" {
						outcome = "error"
					}
					tr.Add(vh.Ev{"ev": "tx", "dir": "res", "id": e.ID, "url": e.URL, "seq": cur, "outcome": outcome})
				case "err":
					eng.S.OnError(e.ID)
					tr.Add(vh.Ev{"ev": "err", "id": e.ID})
				default:
					vh.Die("unknown event %q", e.Ev)
				}
			}
		}
		if eng != nil {
			eng.Close()
		}
		tr.Write(filepath.Join(os.Args[3], fmt.Sprintf("trace-%03d.ndjson", si)))
		os.RemoveAll(dir)
	}
}
