// c03: executes filter-selection cases against the real filter tree / stream engine and
// records which flows the real code selected, as one NDJSON trace for TLC (FilterTrace.tla).
//
//	c03 tree   <cases.json> <out.ndjson>           streamfilter.NewFilterTree + AddFlow in each given order + GetFlow
//	c03 engine <cases.json> <out.ndjson> <workdir> YAML flows -> streams.NewValidationStream(dir).Initialize() (several
//	                                               builds: Go's map order supplies load orders) + ExecuteFlow
//
// cases.json: [{"flows":[flow,...],"orders":[[i,...],...],"builds":n,"txns":[txn,...]}, ...]
//
//	flow: {"name":..,"pat":[[host labels],[path segments]],"m":[methods],"h":[[key,value],...],"q":[[key,value],...],
//	       "s":[status codes],"typ":"user"|"sysStart"|"sysEnd"}
//	txn:  {"side":"req"|"resp","url":[[host labels],[path segments]],"method":..,"hdr":[[key,value],...],
//	       "qry":[[key,value],...],"status":n}
//
// Pure executor: renders the model-form values to the strings the code takes, runs the real code, writes what it answered.
package main

import (
	"fmt"
	"os"
	"path/filepath"
	"sort"
	"strings"

	lunar_messages "lunar/engine/messages"
	"lunar/engine/streams"
	stream_config "lunar/engine/streams/config"
	streamfilter "lunar/engine/streams/filter"
	stream_flow "lunar/engine/streams/flow"
	internaltypes "lunar/engine/streams/internal-types"
	lunar_context "lunar/engine/streams/lunar-context"
	public_types "lunar/engine/streams/public-types"
	stream_types "lunar/engine/streams/types"
	"lunar/engine/utils/environment"
	context_manager "lunar/toolkit-core/context-manager"
	"lunar/toolkit-core/verifhook"

	"verifharness/internal/vh"
)

type Flow struct {
	Name string      `json:"name"`
	Pat  [2][]string `json:"pat"`
	M    []string    `json:"m"`
	H    [][2]string `json:"h"`
	Q    [][2]string `json:"q"`
	S    []int       `json:"s"`
	Typ  string      `json:"typ"`
	Ans  int         `json:"ans"` // engine level: > 0 = the request half of the flow answers with this status (GenerateResponse)
}

type Txn struct {
	Side   string      `json:"side"`
	URL    [2][]string `json:"url"`
	Method string      `json:"method"`
	Hdr    [][2]string `json:"hdr"`
	Qry    [][2]string `json:"qry"`
	Status int         `json:"status"`
}

type Case struct {
	Flows  []Flow  `json:"flows"`
	Orders [][]int `json:"orders"`
	Builds int     `json:"builds"`
	Txns   []Txn   `json:"txns"`
}

func render(u [2][]string) string {
	s := strings.Join(u[0], ".")
	if len(u[1]) > 0 {
		s += "/" + strings.Join(u[1], "/")
	}
	return s
}

// pathOf: the path HAProxy reports next to the URL ("/a/b"; empty for a host-only URL)
func pathOf(u [2][]string) string {
	if len(u[1]) == 0 {
		return ""
	}
	return "/" + strings.Join(u[1], "/")
}

func kvs(p [][2]string) []public_types.KeyValue {
	out := []public_types.KeyValue{}
	for _, e := range p {
		out = append(out, *public_types.NewKeyValue(e[0], e[1]))
	}
	return out
}

func filterOf(f Flow) *stream_config.Filter {
	return &stream_config.Filter{
		Name: f.Name, URL: render(f.Pat), QueryParams: kvs(f.Q), Method: append([]string{}, f.M...),
		Headers: kvs(f.H), StatusCode: append([]int{}, f.S...),
	}
}

func flowType(t string) internaltypes.FlowType {
	switch t {
	case "sysStart":
		return internaltypes.SystemFlowStart
	case "sysEnd":
		return internaltypes.SystemFlowEnd
	}
	return internaltypes.UserFlow
}

var shared = lunar_context.NewMemoryState[[]byte]()

func query(t Txn) string {
	parts := []string{}
	for _, e := range t.Qry {
		parts = append(parts, e[0]+"="+e[1])
	}
	return strings.Join(parts, "&")
}

func apiStream(t Txn, id string) public_types.APIStreamI {
	hdr := map[string]string{}
	for _, e := range t.Hdr {
		hdr[e[0]] = e[1]
	}
	if t.Side == "resp" {
		return stream_types.NewResponseAPIStream(lunar_messages.OnResponse{
			ID: id, SequenceID: id, Method: t.Method, URL: render(t.URL), Status: t.Status, Headers: map[string]string{},
		}, shared)
	}
	return stream_types.NewRequestAPIStream(lunar_messages.OnRequest{
		ID: id, SequenceID: id, Method: t.Method, Scheme: "https", URL: render(t.URL), Path: pathOf(t.URL), Query: query(t), Headers: hdr,
	}, shared)
}

func names(fl []internaltypes.FlowI) []string {
	out := []string{}
	for _, f := range fl {
		out = append(out, f.GetName())
	}
	return out
}

func uniqSorted(s []string) []string {
	m := map[string]bool{}
	out := []string{}
	for _, x := range s {
		if !m[x] {
			m[x] = true
			out = append(out, x)
		}
	}
	sort.Strings(out)
	return out
}

func flowEv(c Case) []any {
	fl := []any{}
	for _, f := range c.Flows {
		fl = append(fl, vh.Ev{"name": f.Name, "pat": f.Pat, "m": nz(f.M), "h": nz2(f.H), "q": nz2(f.Q), "s": nzi(f.S), "typ": f.Typ, "ans": f.Ans})
	}
	return fl
}

func nz(s []string) []string {
	if s == nil {
		return []string{}
	}
	return s
}

func nz2(s [][2]string) [][2]string {
	if s == nil {
		return [][2]string{}
	}
	return s
}

func nzi(s []int) []int {
	if s == nil {
		return []int{}
	}
	return s
}

func txnEv(t Txn) vh.Ev {
	u := t.URL
	if u[1] == nil {
		u[1] = []string{}
	}
	return vh.Ev{"side": t.Side, "url": u, "method": t.Method, "hdr": nz2(t.Hdr), "qry": nz2(t.Qry), "status": t.Status}
}

// ---------------------------------------------------------------------------------------------------------------
// tree level: controlled load order

func runTree(cases []Case, tr *vh.Trace) {
	for ci, c := range cases {
		for i := range c.Flows {
			if c.Flows[i].Pat[1] == nil {
				c.Flows[i].Pat[1] = []string{}
			}
		}
		orders := c.Orders
		if orders == nil {
			orders = [][]int{}
		}
		tr.Add(vh.Ev{"ev": "reset", "flows": flowEv(c), "orders": orders})
		trees := []internaltypes.FilterTreeI{}
		for _, ord := range orders {
			tree := streamfilter.NewFilterTree()
			for _, k := range ord {
				f := c.Flows[k-1]
				flow := stream_flow.NewFlow(nil, &stream_config.FlowRepresentation{
					Name: f.Name, Filter: filterOf(f), Type: flowType(f.Typ),
				}, nil)
				if err := tree.AddFlow(flow); err != nil {
					vh.Die("case %d: AddFlow(%s): %v", ci, f.Name, err)
				}
			}
			trees = append(trees, tree)
		}
		for ti, t := range c.Txns {
			sels := [][]string{}
			for _, tree := range trees {
				sel := []string{}
				res, found := tree.GetFlow(apiStream(t, fmt.Sprintf("c%d-t%d", ci, ti)))
				if found && res != nil {
					if fl, ok := res.GetUserFlow(); ok {
						sel = append(sel, names(fl)...)
					}
					if fl, ok := res.GetSystemFlowStart(); ok {
						sel = append(sel, names(fl)...)
					}
					if fl, ok := res.GetSystemFlowEnd(); ok {
						sel = append(sel, names(fl)...)
					}
				}
				sels = append(sels, uniqSorted(sel))
			}
			tr.Add(vh.Ev{"ev": "x", "x": txnEv(t), "sels": sels, "nact": -1, "early": []vh.Ev{}})
		}
	}
}

// ---------------------------------------------------------------------------------------------------------------
// engine level: flows as YAML files, one UserDefinedMetrics processor on each side

func yamlList(items []string) string { return "[" + strings.Join(items, ", ") + "]" }

// filterYAML renders the filter of a flow / quota (indented by ind, starting with the url line)
func filterYAML(f Flow, ind string) string {
	var b strings.Builder
	fmt.Fprintf(&b, "%surl: %q\n", ind, render(f.Pat))
	if len(f.M) > 0 {
		q := []string{}
		for _, m := range f.M {
			q = append(q, fmt.Sprintf("%q", m))
		}
		fmt.Fprintf(&b, "%smethod: %s\n", ind, yamlList(q))
	}
	if len(f.H) > 0 {
		b.WriteString(ind + "headers:\n")
		for _, e := range f.H {
			fmt.Fprintf(&b, "%s  - key: %q\n%s    value: %q\n", ind, e[0], ind, e[1])
		}
	}
	if len(f.Q) > 0 {
		b.WriteString(ind + "query_params:\n")
		for _, e := range f.Q {
			fmt.Fprintf(&b, "%s  - key: %q\n%s    value: %q\n", ind, e[0], ind, e[1])
		}
	}
	if len(f.S) > 0 {
		q := []string{}
		for _, s := range f.S {
			q = append(q, fmt.Sprintf("%d", s))
		}
		fmt.Fprintf(&b, "%sstatus_code: %s\n", ind, yamlList(q))
	}
	return b.String()
}

// quotasYAML: one quota resource per flow of type "quota" (fixed window that never fills up); the engine generates
// the system flows of the quotas from their filters
func quotasYAML(qs []Flow) string {
	var b strings.Builder
	b.WriteString("quotas:\n")
	for _, f := range qs {
		fmt.Fprintf(&b, "  - id: %s\n    filter:\n%s", f.Name, filterYAML(f, "      "))
		b.WriteString("    strategy:\n      fixed_window:\n        max: 100000000\n        interval: 1\n        interval_unit: hour\n")
	}
	return b.String()
}

const answerTemplate = `processors:
  procReq:
    processor: UserDefinedMetrics
    parameters:
      - key: metric_name
        value: "verif_req"
      - key: metric_type
        value: "counter"
  answer:
    processor: GenerateResponse
    parameters:
      - key: status
        value: %d
      - key: body
        value: "answered by the gateway"
      - key: Content-Type
        value: text/plain
  procRes:
    processor: UserDefinedMetrics
    parameters:
      - key: metric_name
        value: "verif_res"
      - key: metric_type
        value: "counter"
flow:
  request:
    - from:
        stream:
          name: globalStream
          at: start
      to:
        processor:
          name: procReq
    - from:
        processor:
          name: procReq
      to:
        processor:
          name: answer
  response:
    - from:
        processor:
          name: answer
      to:
        processor:
          name: procRes
    - from:
        processor:
          name: procRes
      to:
        stream:
          name: globalStream
          at: end
`

func flowYAML(f Flow) string {
	var b strings.Builder
	fmt.Fprintf(&b, "name: %s\nfilter:\n%s", f.Name, filterYAML(f, "  "))
	if f.Ans > 0 {
		fmt.Fprintf(&b, answerTemplate, f.Ans)
		return b.String()
	}
	b.WriteString(`processors:
  procReq:
    processor: UserDefinedMetrics
    parameters:
      - key: metric_name
        value: "verif_req"
      - key: metric_type
        value: "counter"
  procSet:
    processor: TransformAPICall
    parameters:
      - key: set
        value:
          '$.request.headers["x-verif"]': "1"
  procRes:
    processor: UserDefinedMetrics
    parameters:
      - key: metric_name
        value: "verif_res"
      - key: metric_type
        value: "counter"
flow:
  request:
    - from:
        stream:
          name: globalStream
          at: start
      to:
        processor:
          name: procReq
    - from:
        processor:
          name: procReq
      to:
        processor:
          name: procSet
    - from:
        processor:
          name: procSet
      to:
        stream:
          name: globalStream
          at: end
  response:
    - from:
        stream:
          name: globalStream
          at: start
      to:
        processor:
          name: procRes
    - from:
        processor:
          name: procRes
      to:
        stream:
          name: globalStream
          at: end
`)
	return b.String()
}

type execRec struct{ flow, key, dir string }

func contains(l []string, x string) bool {
	for _, y := range l {
		if x == y {
			return true
		}
	}
	return false
}

// quotaOf: the quota (by id) a processor key of a generated system flow belongs to
func quotaOf(key string, quotas []Flow) string {
	for _, q := range quotas {
		if strings.HasPrefix(key, q.Name+"_") || strings.HasSuffix(key, "_"+q.Name) || key == q.Name {
			return q.Name
		}
	}
	return ""
}

func earlyResponse(a *stream_config.StreamActions) bool {
	for _, x := range a.Request.Actions {
		if x != nil && x.IsEarlyReturnType() {
			return true
		}
	}
	return false
}

func runEngine(cases []Case, tr *vh.Trace, work string) {
	repo := os.Getenv("VERIF_REPO")
	if repo == "" {
		repo = "/repo"
	}
	environment.SetProcessorsDirectory(filepath.Join(repo, "proxy/src/services/lunar-engine/streams/processors/registry"))
	context_manager.Get().SetMockClock()
	var execs []execRec
	verifhook.SetSink(func(point string, kv ...any) {
		if point != "proc.exec" {
			return
		}
		r := execRec{}
		for i := 0; i+1 < len(kv); i += 2 {
			switch kv[i] {
			case "flow":
				r.flow, _ = kv[i+1].(string)
			case "key":
				r.key, _ = kv[i+1].(string)
			case "dir":
				r.dir, _ = kv[i+1].(string)
			}
		}
		execs = append(execs, r)
	})
	for ci, c := range cases {
		for i := range c.Flows {
			if c.Flows[i].Pat[1] == nil {
				c.Flows[i].Pat[1] = []string{}
			}
		}
		dir := filepath.Join(work, fmt.Sprintf("case-%d", ci))
		for _, d := range []string{"flows", "quotas"} {
			if err := os.MkdirAll(filepath.Join(dir, d), 0o755); err != nil {
				vh.Die("mkdir: %v", err)
			}
		}
		quotas := []Flow{}
		for _, f := range c.Flows {
			if f.Typ == "quota" {
				quotas = append(quotas, f)
				continue
			}
			if err := os.WriteFile(filepath.Join(dir, "flows", f.Name+".yaml"), []byte(flowYAML(f)), 0o644); err != nil {
				vh.Die("write flow: %v", err)
			}
		}
		if len(quotas) > 0 {
			if err := os.WriteFile(filepath.Join(dir, "quotas", "quotas.yaml"), []byte(quotasYAML(quotas)), 0o644); err != nil {
				vh.Die("write quotas: %v", err)
			}
		}
		userFlow := map[string]bool{}
		for _, f := range c.Flows {
			if f.Typ != "quota" {
				userFlow[f.Name] = true
			}
		}
		builds := c.Builds
		if builds < 1 {
			builds = 1
		}
		engines := []*streams.Stream{}
		for b := 0; b < builds; b++ {
			st, err := streams.NewValidationStream(dir)
			if err != nil {
				vh.Die("case %d: NewValidationStream: %v", ci, err)
			}
			if err := st.Initialize(); err != nil {
				vh.Die("case %d: Initialize: %v\n%s", ci, err, flowYAML(c.Flows[0]))
			}
			engines = append(engines, st)
		}
		tr.Add(vh.Ev{"ev": "reset", "flows": flowEv(c), "orders": [][]int{}})
		for ti, t := range c.Txns {
			sels := [][]string{}
			earlies := []vh.Ev{}
			nact := 0
			for _, st := range engines {
				before := st.GetFlowInvocations()
				execs = execs[:0]
				actions := &stream_config.StreamActions{
					Request: &stream_config.RequestStream{}, Response: &stream_config.ResponseStream{},
				}
				as := apiStream(t, fmt.Sprintf("e%d-t%d", ci, ti))
				as.SetContext(lunar_context.NewLunarContext(lunar_context.NewContext()))
				if err := st.ExecuteFlow(as, actions); err != nil {
					vh.Die("case %d txn %d: ExecuteFlow: %v", ci, ti, err)
				}
				if os.Getenv("C03_DEBUG") != "" {
					for _, e := range execs {
						fmt.Fprintf(os.Stderr, "exec case=%d txn=%d flow=%q key=%q dir=%s\n", ci, ti, e.flow, e.key, e.dir)
					}
				}
				sel, rsel, early := []string{}, []string{}, 0
				wantDir := "StreamTypeResponse"
				if t.Side == "req" {
					wantDir = "StreamTypeRequest"
					// request side, user flows: per-flow invocation counters of the engine
					after := st.GetFlowInvocations()
					for name, n := range after {
						if n > before[name] {
							sel = append(sel, name)
						}
					}
				}
				for _, e := range execs {
					// a quota is selected when a processor of its generated system flow ran (the processor key carries the quota id)
					if q := quotaOf(e.key, quotas); q != "" {
						if e.dir == wantDir {
							sel = append(sel, q)
						} else {
							rsel = append(rsel, q)
						}
						continue
					}
					if !userFlow[e.flow] {
						continue
					}
					if t.Side == "resp" {
						// response side, user flows: processor executions reported by the proc.exec hook
						sel = append(sel, e.flow)
					} else if e.dir == "StreamTypeResponse" {
						// a request answered inside the gateway: the response halves that ran on the generated response
						rsel = append(rsel, e.flow)
					}
				}
				if t.Side == "req" {
					for _, f := range c.Flows {
						if f.Ans > 0 && contains(sel, f.Name) && earlyResponse(actions) {
							early = f.Ans
						}
					}
				}
				if n := len(actions.Request.Actions) + len(actions.Response.Actions); n > nact {
					nact = n
				}
				sels = append(sels, uniqSorted(sel))
				earlies = append(earlies, vh.Ev{"st": early, "rsel": uniqSorted(rsel)})
			}
			tr.Add(vh.Ev{"ev": "x", "x": txnEv(t), "sels": sels, "nact": nact, "early": earlies})
		}
		os.RemoveAll(dir)
	}
}

func main() {
	vh.Quiet()
	if len(os.Args) < 4 {
		vh.Die("usage: c03 tree|engine <cases.json> <out.ndjson> [workdir]")
	}
	var cases []Case
	vh.ReadJSON(os.Args[2], &cases)
	tr := vh.NewTrace()
	tr.Add(vh.Ev{"ev": "config", "mode": os.Args[1], "cases": len(cases)})
	switch os.Args[1] {
	case "tree":
		runTree(cases, tr)
	case "engine":
		if len(os.Args) < 5 {
			vh.Die("engine mode needs a workdir")
		}
		runEngine(cases, tr, os.Args[4])
	default:
		vh.Die("unknown mode %q", os.Args[1])
	}
	tr.Write(os.Args[3])
}
