// c11: drives the real config.TxnPoliciesAccessor (policy versions pinned per transaction, TTL vacuum) on the mock clock and
// records what it answered, as NDJSON for TLC.
//
//	c11 run <scripts.json> <outdir>          env: HAPROXY_MANAGE_ENDPOINTS_PORT, LUNAR_HEALTHCHECK_PORT (read by the engine
//	                                         at package init; the loopback fake of the HAProxy admin API listens there)
//
// scripts.json: [{"histories":[[event,...],...]}, ...]      one trace file per script
// event: {"ev":"reset","label":L}                    fresh accessor built by config.BuildInitialFromFile from a policies file labelled L
//
//	{"ev":"lookup","txn":id}                        GetTxnPoliciesData(id)  (request and response of a transaction are both this call)
//	{"ev":"update","op":"apply","label":L}          UpdateRawData(policies labelled L)            (POST /apply_policies with a body)
//	{"ev":"update","op":"reload","label":L}         policies file rewritten with L, ReloadFromFile()
//	{"ev":"update","op":"revdf"} / {"op":"revll"}   RevertToDiagnosisFree() / RevertToLastLoaded()  (fail-safe reverts)
//	{"ev":"update",...,"fail":k}                    the same while the fake admin API refuses its k-th call (503): the update may fail
//	{"ev":"gaplookup","txn":id,"at":P,"inner":[..]} the lookup runs on a goroutine of its own and is held at the yield point
//	                                                pa.<P> (pin.before_lock | pin.before_vacuumkey) while the inner events run
//	{"ev":"gapupdate","op":..,"at":"version.before_vacuumkey","inner":[..]}   an update held between installing the new
//	                                                version and VacuumKey(previous) while the inner events (lookups, adv) run
//	{"ev":"adv","d":seconds}                        mock clock advanced instant by instant: every background vacuum pass that
//	                                                becomes due is awaited through the vacuum.pass hook before time moves on
//
// Every recorded event carries the accessor's state (VerifSnapshot): cur, vers (sorted), pins (sorted [txn, version] pairs)
// and t = seconds since the start.  A returned *PoliciesData is identified by the version number under which it was
// seen in the version map (0 = never seen) and by its content (label, diagnosis-free).  Pure executor.
package main

import (
	"fmt"
	"os"
	"path/filepath"
	"runtime"
	"sort"
	"strings"
	"sync"
	"sync/atomic"
	"time"

	"github.com/negasus/haproxy-spoe-go/message"
	"github.com/negasus/haproxy-spoe-go/payload/kv"
	"github.com/negasus/haproxy-spoe-go/request"

	"lunar/engine/config"
	"lunar/engine/routing"
	"lunar/engine/runner"
	"lunar/engine/services"
	contextmanager "lunar/toolkit-core/context-manager"
	"lunar/toolkit-core/verifhook"

	"verifharness/internal/c11acc"
	"verifharness/internal/vh"
)

type Event struct {
	Ev    string  `json:"ev"`
	Label string  `json:"label,omitempty"`
	Txn   string  `json:"txn,omitempty"`
	Op    string  `json:"op,omitempty"`
	D     int     `json:"d,omitempty"`
	Fail  int     `json:"fail,omitempty"`  // update: the fake admin API refuses its Fail-th call from now on (503)
	At    string  `json:"at,omitempty"`    // gaplookup / gapupdate: the yield point at which the call is held
	Inner []Event `json:"inner,omitempty"` // ... while these events run
	A     *Event  `json:"a,omitempty"`     // overlap: two updates, both held at the proxy's admin API; a installs first,
	B     *Event  `json:"b,omitempty"`     // ... the inner events run, then b installs
	Drift []int   `json:"drift,omitempty"` // reset: seconds by which successive vacuum wake-ups are late (cycled)
	Hdl   bool    `json:"handler,omitempty"` // reset: transactions go through the real SPOE message handler (hreq / hres)
	ID    string  `json:"id,omitempty"`
	Seq   string  `json:"seq,omitempty"`
	St    int     `json:"status,omitempty"`
	N     int     `json:"n,omitempty"` // burst: number of fresh transactions
}

type Script struct {
	Histories [][]Event `json:"histories"`
}

var start = time.Unix(1_700_000_000, 0)

type passEv struct {
	name    string
	removed int
}

var passCh = make(chan passEv, 64)

// a vacuum that woke up for its next pass is held (hook vacuum.wake) until the driver releases it: the driver may let
// time pass first, so that the pass reads the clock later than its timer was due (drift of a real clock)
type wakeEv struct {
	name string
	rel  chan struct{}
}

var wakeCh = make(chan wakeEv, 16)

// handler mode: the policies the SPOE handler dispatched the last request / response with; diagnosis tasks handed over / done
var (
	mhMu           sync.Mutex
	mhLast         *config.PoliciesData
	mhDir          string
	diagN, diagDone atomic.Int64
)

// vacuums that started their background loop since the driver last looked (hook vacuum.start, raised synchronously
// inside the call that handed the vacuum its first key)
var (
	startMu  sync.Mutex
	startedQ []string
)

// gate: one armed yield point (pa.*) at which the goroutine that reaches it first is held until released
var gate struct {
	mu      sync.Mutex
	armed   bool
	point   string
	txn     string
	reached chan struct{}
	release chan struct{}
}

func short(name string) string {
	if i := strings.LastIndex(name, "::"); i >= 0 {
		return name[i+2:]
	}
	return name
}

func sink(point string, kv ...any) {
	m := map[string]any{}
	for i := 0; i+1 < len(kv); i += 2 {
		m[fmt.Sprint(kv[i])] = kv[i+1]
	}
	switch {
	case point == "vacuum.pass":
		removed, _ := m["removed"].(int)
		passCh <- passEv{short(fmt.Sprint(m["name"])), removed}
	case point == "vacuum.wake":
		w := wakeEv{short(fmt.Sprint(m["name"])), make(chan struct{})}
		wakeCh <- w
		<-w.rel
	case point == "mh.policies":
		mhMu.Lock()
		mhLast, _ = m["policies"].(*config.PoliciesData)
		mhDir = fmt.Sprint(m["dir"])
		mhMu.Unlock()
	case point == "diag.notify":
		diagN.Add(1)
	case point == "diag.done":
		diagDone.Add(1)
	case point == "vacuum.start":
		startMu.Lock()
		startedQ = append(startedQ, short(fmt.Sprint(m["name"])))
		startMu.Unlock()
	case strings.HasPrefix(point, "pa."):
		gate.mu.Lock()
		hit := gate.armed && "pa."+gate.point == point && (gate.txn == "" || gate.txn == fmt.Sprint(m["txn"]))
		if hit {
			gate.armed = false
		}
		reached, release := gate.reached, gate.release
		gate.mu.Unlock()
		if hit {
			reached <- struct{}{}
			<-release
		}
	}
}

func arm(point, txn string) (chan struct{}, chan struct{}) {
	gate.mu.Lock()
	defer gate.mu.Unlock()
	gate.armed, gate.point, gate.txn = true, point, txn
	gate.reached, gate.release = make(chan struct{}), make(chan struct{})
	return gate.reached, gate.release
}

func disarm() {
	gate.mu.Lock()
	gate.armed = false
	gate.mu.Unlock()
}

type run struct {
	fx   *c11acc.Fixture
	fake *c11acc.FakeHAProxy
	tr   *vh.Trace
	ids  map[*config.PoliciesData]int
	seen map[string]bool // vacuums that have started; each keeps exactly one timer armed between its passes
	nburst int
	extra  int // timers of the fixture that are armed for good (handler mode: the services' far-away periodic timer)
	drift  []int
	driftI int
	hdl    *handlerFx
}

func (r *run) nextDrift() int {
	if len(r.drift) == 0 {
		return 0
	}
	d := r.drift[r.driftI%len(r.drift)]
	r.driftI++
	return d
}

func (r *run) mock() interface {
	Now() time.Time
	AdvanceTime(time.Duration)
	PendingTimers() []time.Time
} {
	return contextmanager.Get().GetMockClock()
}

func (r *run) t() int64 { return int64(r.mock().Now().Sub(start) / time.Second) }

func (r *run) snap(ev vh.Ev) vh.Ev {
	cur, vers, pins := r.fx.Accessor.VerifSnapshot()
	vs := []int{}
	for v, p := range vers {
		vs = append(vs, int(v))
		r.ids[p] = int(v)
	}
	sort.Ints(vs)
	ps := [][]any{}
	nburst := 0
	for txn, v := range pins {
		if strings.HasPrefix(string(txn), "b#") { // transactions of a burst are counted, not listed
			nburst++
			continue
		}
		ps = append(ps, []any{string(txn), int(v)})
	}
	if nburst > 0 {
		ev["burstpins"] = nburst
	}
	sort.Slice(ps, func(i, j int) bool { return ps[i][0].(string) < ps[j][0].(string) })
	ev["cur"], ev["vers"], ev["pins"], ev["t"] = int(cur), vs, ps, r.t()
	return ev
}

func (r *run) awaitPass(name string) passEv {
	select {
	case p := <-passCh:
		if p.name != name {
			vh.Die("unexpected vacuum pass of %q while waiting for %q", p.name, name)
		}
		return p
	case <-time.After(10 * time.Second):
		vh.Die("no vacuum pass of %q", name)
	}
	return passEv{}
}

// settled waits until every running vacuum has armed the timer of its next pass (nothing else uses the mock clock:
// the policy files of this harness schedule no delayed un-manage calls).
func (r *run) settled() {
	deadline := time.Now().Add(10 * time.Second)
	for len(r.mock().PendingTimers()) != len(r.seen)+r.extra {
		if time.Now().After(deadline) {
			vh.Die("%d timers armed, %d vacuums running (+%d other)", len(r.mock().PendingTimers()), len(r.seen), r.extra)
		}
		runtime.Gosched()
	}
}

// afterOp: every vacuum that the call just made start passes once immediately; wait for that pass and for its timer.
func (r *run) afterOp() {
	startMu.Lock()
	names := startedQ
	startedQ = nil
	startMu.Unlock()
	for _, name := range names {
		r.awaitPass(name)
		r.seen[name] = true
	}
	r.settled()
}

func (r *run) logLookup(txn string, p *config.PoliciesData, cs []int) {
	ev := r.snap(vh.Ev{"ev": "lookup", "txn": txn})
	label, df := c11acc.Describe(p)
	ev["ver"], ev["label"], ev["df"] = r.ids[p], label, df
	if cs != nil {
		ev["cs"] = cs
	}
	r.tr.Add(ev)
}

func (r *run) lookup(txn string) {
	p := r.fx.Accessor.GetTxnPoliciesData(config.TxnID(txn))
	r.afterOp()
	r.logLookup(txn, p, nil)
}

func (r *run) doUpdate(e Event) error {
	switch e.Op {
	case "apply":
		return r.fx.Accessor.UpdateRawData(c11acc.PoliciesYAML(e.Label))
	case "reload":
		r.fx.WritePoliciesFile(e.Label)
		return r.fx.Accessor.ReloadFromFile()
	case "revdf":
		return r.fx.Accessor.RevertToDiagnosisFree()
	case "revll":
		return r.fx.Accessor.RevertToLastLoaded()
	}
	vh.Die("unknown update op %q", e.Op)
	return nil
}

func (r *run) logUpdate(e Event, ok bool, gap string) {
	ev := r.snap(vh.Ev{"ev": "update", "op": e.Op, "label": e.Label, "ok": ok})
	label, df := c11acc.Describe(r.fx.Accessor.GetCurrentPoliciesData())
	ev["clabel"], ev["cdf"] = label, df
	if e.Fail > 0 {
		ev["fail"] = e.Fail
	}
	if gap != "" {
		ev["gap"] = gap
	}
	r.tr.Add(ev)
}

func (r *run) update(e Event) {
	r.fake.FailNext(e.Fail)
	err := r.doUpdate(e)
	r.fake.FailNext(0)
	if err != nil && e.Fail == 0 {
		// only a refused admin call makes an update of this harness fail: anything else is a problem of the fixture
		vh.Die("update %s failed: %v", e.Op, err)
	}
	r.afterOp()
	r.logUpdate(e, err == nil, "")
}

func (r *run) curNow() int {
	cur, _, _ := r.fx.Accessor.VerifSnapshot()
	return int(cur)
}

// gapLookup holds the lookup of e.Txn at the yield point e.At while the inner events run (updates, lookups of other
// transactions), then lets it finish.  cs = the versions that were current at some instant of the lookup.
func (r *run) gapLookup(e Event) {
	reached, release := arm(e.At, e.Txn)
	done := make(chan *config.PoliciesData, 1)
	go func() { done <- r.fx.Accessor.GetTxnPoliciesData(config.TxnID(e.Txn)) }()
	select {
	case p := <-done: // the call does not pass the yield point (the transaction is pinned already)
		disarm()
		r.afterOp()
		r.logLookup(e.Txn, p, nil)
		return
	case <-reached:
	case <-time.After(10 * time.Second):
		vh.Die("lookup neither returned nor reached %s", e.At)
	}
	cs := []int{r.curNow()}
	for _, in := range e.Inner {
		if in.Ev == "adv" || (in.Ev == "lookup" && in.Txn == e.Txn) {
			vh.Die("a held lookup takes no time and is the only one of its transaction")
		}
		r.exec(in)
		if c := r.curNow(); c != cs[len(cs)-1] {
			cs = append(cs, c)
		}
	}
	close(release)
	p := <-done
	r.afterOp()
	r.logLookup(e.Txn, p, cs)
}

// gapUpdate holds an update between the locked installation of the new version and the VacuumKey of the previous one.
func (r *run) gapUpdate(e Event) {
	reached, release := arm(e.At, "")
	done := make(chan error, 1)
	go func() { done <- r.doUpdate(e) }()
	select {
	case err := <-done:
		disarm()
		if err != nil {
			vh.Die("update %s failed: %v", e.Op, err)
		}
		r.afterOp()
		r.logUpdate(e, true, "")
		return
	case <-reached:
	case <-time.After(10 * time.Second):
		vh.Die("update neither returned nor reached %s", e.At)
	}
	r.logUpdate(e, true, e.At) // the new version is installed and visible from here on
	for _, in := range e.Inner {
		if in.Ev == "update" || in.Ev == "gapupdate" {
			vh.Die("updates do not overlap")
		}
		r.exec(in)
	}
	close(release)
	if err := <-done; err != nil {
		vh.Die("update %s failed: %v", e.Op, err)
	}
	r.afterOp()
}

// overlap: two updates run on goroutines of their own and are both held at the proxy's admin API (the call they wait for
// before installing their version); a is released and finishes, the inner events run, then b.
func (r *run) overlap(e Event) {
	r.fake.HoldManageAll(2)
	type res struct{ err error }
	startHeld := func(u Event) (chan error, chan struct{}) {
		done := make(chan error, 1)
		go func() { done <- r.doUpdate(u) }()
		select {
		case rel := <-r.fake.Held():
			return done, rel
		case err := <-done:
			vh.Die("update %s finished (%v) without asking the proxy to manage everything", u.Op, err)
		case <-time.After(10 * time.Second):
			vh.Die("update %s neither finished nor reached the admin API", u.Op)
		}
		return nil, nil
	}
	doneA, relA := startHeld(*e.A)
	doneB, relB := startHeld(*e.B)
	close(relA)
	if err := <-doneA; err != nil {
		vh.Die("update %s failed: %v", e.A.Op, err)
	}
	r.afterOp()
	r.logUpdate(*e.A, true, "overlap")
	for _, in := range e.Inner {
		if in.Ev != "lookup" {
			vh.Die("only lookups run between two overlapping updates")
		}
		r.exec(in)
	}
	close(relB)
	if err := <-doneB; err != nil {
		vh.Die("update %s failed: %v", e.B.Op, err)
	}
	r.afterOp()
	r.logUpdate(*e.B, true, "overlap")
}

// ---- handler mode: the real SPOE message handler of a policy-mode HandlingDataManager around the accessor

type nopWriter struct{}

func (nopWriter) Write(b []byte) (int, error) { return len(b), nil }
func (nopWriter) Close() error                { return nil }

type handlerFx struct {
	dm      *routing.HandlingDataManager
	handler routing.MessageHandler
}

func newHandler(build config.BuildResult) *handlerFx {
	w := nopWriter{}
	// the services' periodic work is put out of reach of every history: its timer stays armed and never fires
	svc, err := services.Initialize(w, 100000*time.Hour, build.Initial.Config.Exporters)
	if err != nil {
		vh.Die("services.Initialize: %v", err)
	}
	dm := routing.VerifNewPolicyModeManager(build, svc, runner.NewDiagnosisWorker(), w)
	return &handlerFx{dm: dm, handler: routing.Handler(dm)}
}

// handlerCall: lunar-on-request / lunar-on-response of transaction e.ID inside sequence e.Seq through routing.Handler;
// recorded as the lookup of transaction e.ID with the policies the handler dispatched the message with (hook mh.policies).
func (r *run) handlerCall(e Event) {
	if r.hdl == nil {
		vh.Die("%s outside a handler history", e.Ev)
	}
	k := kv.NewKV()
	name, via := "lunar-on-request", "request"
	k.Add("id", e.ID)
	k.Add("sequence_id", e.Seq)
	k.Add("method", "GET")
	k.Add("url", "api.test/x")
	if e.Ev == "hreq" {
		k.Add("scheme", "https")
		k.Add("path", "/x")
		k.Add("query", "")
		k.Add("headers", "Host: api.test\r\n")
	} else {
		name, via = "lunar-on-response", "response"
		k.Add("status", int64(e.St))
		k.Add("headers", "content-type: text/plain\r\n")
	}
	k.Add("body", []byte(""))
	mhMu.Lock()
	mhLast, mhDir = nil, ""
	mhMu.Unlock()
	req := &request.Request{Messages: &message.Messages{{Name: name, KV: k}}}
	r.hdl.handler(req)
	// the diagnosis worker looks the transaction up once more on its own goroutine: wait until it is done
	for deadline := time.Now().Add(10 * time.Second); diagDone.Load() < diagN.Load(); runtime.Gosched() {
		if time.Now().After(deadline) {
			vh.Die("diagnosis worker did not finish")
		}
	}
	r.afterOp()
	mhMu.Lock()
	p, dir := mhLast, mhDir
	mhMu.Unlock()
	if p == nil || dir != via {
		vh.Die("the handler did not dispatch the %s of %s in policy mode", via, e.ID)
	}
	ev := r.snap(vh.Ev{"ev": "lookup", "txn": e.ID, "seq": e.Seq, "via": via})
	label, df := c11acc.Describe(p)
	ev["ver"], ev["label"], ev["df"] = r.ids[p], label, df
	r.tr.Add(ev)
}

// burst: n fresh transactions are seen for the first time at this instant (scale: size limits of the anchors map and
// of the vacuum's backlog).  Counted, not recorded one by one.
func (r *run) burst(n int) {
	cur := r.fx.Accessor.GetCurrentPoliciesData()
	same := 0
	for i := 0; i < n; i++ {
		r.nburst++
		if r.fx.Accessor.GetTxnPoliciesData(config.TxnID(fmt.Sprintf("b#%d", r.nburst))) == cur {
			same++
		}
	}
	r.afterOp()
	r.tr.Add(r.snap(vh.Ev{"ev": "burst", "n": n, "current": same}))
}

func (r *run) exec(e Event) {
	switch e.Ev {
	case "lookup":
		r.lookup(e.Txn)
	case "update":
		r.update(e)
	case "adv":
		r.adv(e.D)
	case "gaplookup":
		r.gapLookup(e)
	case "gapupdate":
		r.gapUpdate(e)
	case "overlap":
		r.overlap(e)
	case "burst":
		r.burst(e.N)
	case "hreq", "hres":
		r.handlerCall(e)
	default:
		vh.Die("unknown event %q", e.Ev)
	}
}

func (r *run) adv(d int) {
	target := r.mock().Now().Add(time.Duration(d) * time.Second)
	removed := map[string]int{"txns": 0, "policies": 0}
	passes := 0
	for {
		var nx time.Time
		due := 0
		for _, t2 := range r.mock().PendingTimers() {
			switch {
			case nx.IsZero() || t2.Before(nx):
				nx, due = t2, 1
			case t2.Equal(nx):
				due++
			}
		}
		if due == 0 || nx.After(target) {
			break
		}
		// move to the next instant at which vacuums pass, wait for exactly these passes and for their re-armed timers
		r.mock().AdvanceTime(nx.Sub(r.mock().Now()))
		held := []wakeEv{}
		for i := 0; i < due; i++ {
			select {
			case w := <-wakeCh:
				held = append(held, w)
			case <-time.After(10 * time.Second):
				vh.Die("vacuum due at %v did not wake up", nx)
			}
		}
		// drift: the woken vacuums read the clock d seconds after their timers were due (never across the target of
		// this advance or the wake-up of another vacuum)
		if d := time.Duration(r.nextDrift()) * time.Second; d > 0 {
			if lim := target.Sub(r.mock().Now()); d > lim {
				d = lim
			}
			for _, t2 := range r.mock().PendingTimers() {
				if !t2.After(r.mock().Now().Add(d)) {
					d = 0
				}
			}
			if d > 0 {
				r.mock().AdvanceTime(d)
			}
		}
		for _, w := range held {
			close(w.rel)
		}
		for i := 0; i < due; i++ {
			select {
			case p := <-passCh:
				removed[p.name] += p.removed
				passes++
			case <-time.After(10 * time.Second):
				vh.Die("vacuum pass due at %v did not happen", nx)
			}
		}
		r.settled()
	}
	if rest := target.Sub(r.mock().Now()); rest > 0 {
		r.mock().AdvanceTime(rest)
	}
	// one event per advance: the background passes that became due were awaited one instant at a time; their effect
	// is in the snapshot, the number of entries they removed in rtxns / rpolicies
	r.tr.Add(r.snap(vh.Ev{"ev": "adv", "d": d, "passes": passes, "rtxns": removed["txns"], "rpolicies": removed["policies"]}))
}

func main() {
	vh.Quiet()
	if len(os.Args) != 4 || os.Args[1] != "run" {
		vh.Die("usage: c11 run <scripts.json> <outdir>")
	}
	verifhook.SetSink(sink)
	fake := c11acc.StartFake(os.Getenv("HAPROXY_MANAGE_ENDPOINTS_PORT"), os.Getenv("LUNAR_HEALTHCHECK_PORT"))
	var scripts []Script
	vh.ReadJSON(os.Args[2], &scripts)
	n := 0
	for si, sc := range scripts {
		tr := vh.NewTrace()
		tr.Add(vh.Ev{"ev": "config", "property": "C11"})
		for _, h := range sc.Histories {
			var r *run
			for _, e := range h {
				switch e.Ev {
				case "reset":
					n++
					dir := filepath.Join(os.Args[3], fmt.Sprintf("acc-%d", n))
					startMu.Lock()
					startedQ = nil
					startMu.Unlock()
					c11acc.NoDiagnosis = e.Hdl
					r = &run{fx: c11acc.New(dir, e.Label, start), fake: fake, tr: tr, ids: map[*config.PoliciesData]int{}, seen: map[string]bool{}}
					r.drift = e.Drift
					if e.Hdl {
						r.hdl = newHandler(config.BuildResult{Accessor: r.fx.Accessor, Initial: r.fx.Accessor.GetCurrentPoliciesData()})
						time.Sleep(2 * time.Millisecond)
						r.extra = len(r.mock().PendingTimers())
					}
					ev := r.snap(vh.Ev{"ev": "reset", "label": e.Label})
					if len(e.Drift) > 0 {
						ev["drift"] = e.Drift
					}
					if e.Hdl {
						ev["handler"] = true
					}
					label, df := c11acc.Describe(r.fx.Accessor.GetCurrentPoliciesData())
					ev["clabel"], ev["cdf"] = label, df
					tr.Add(ev)
				default:
					r.exec(e)
				}
			}
			if r != nil {
				if r.hdl != nil {
					r.hdl.dm.StopDiagnosisWorker()
				}
				os.RemoveAll(r.fx.Dir)
			}
		}
		tr.Write(filepath.Join(os.Args[3], fmt.Sprintf("trace-%03d.ndjson", si)))
	}
	if fake.Count() == 0 {
		vh.Die("the fake HAProxy admin API was never called")
	}
}
