// x09: executes gateway lifetimes against the real metrics machinery of lunar-engine and records what the process's
// Prometheus registry exported.  Pure executor: no oracle logic.
//
//	x09 run <scripts.json> <outdir> [parallel]
//
// The code under test, per engine process (one child process per "start" event, because the engine reads its ports at
// package initialisation and serves /metrics from the default mux exactly once):
//
//	routing.HandlingDataManager.Setup      otel.InitProvider (Prometheus exporter on the default registry), doctor, the
//	                                       real streams.Stream from the flow / quota files, metrics.NewMetricManager from
//	                                       the metrics.yaml, UpdateMetricsForFlow
//	routing.Handler                        SPOE messages lunar-on-request / lunar-on-response (processRequest / processResponse:
//	                                       UpdateMetricsForAPICall, RunFlow, UpdateMetricsForFlow)
//	POST /load_flows                       reloadFlows: a new Stream, MetricManager.ReloadMetricsConfig, UpdateMetricsForFlow
//	aggregation-output-plugin discovery    discovery.Run on the access-log records of the finished transactions (the harness
//	                                       plays HAProxy: one record per transaction), State file = DISCOVERY_STATE_LOCATION
//	prometheus.DefaultGatherer             what GET /metrics would show (scrape)
//
// scripts.json: [{"id":n,"known":[url patterns],"threshold":n,"events":[ev...]}]
//
//	{"ev":"start","labels":[..],"lep":[..],"gm":[names],"sm":[names],"gw":"id","files":{"flows/a.yaml":"..","quotas/q.yaml":".."}}
//	{"ev":"txn","id","m","url","tag","hx","st","blen","clen","d","td"}   one transaction: request, then (unless answered) response
//	{"ev":"flush","n"}          the n oldest unflushed access-log records reach the discovery aggregation
//	{"ev":"scrape"}             gather the registry
//	{"ev":"reload","labels","lep","gm","sm","files"}   rewrite metrics.yaml / flows / quotas, POST /load_flows
//	{"ev":"tick","d"}           mock clock + d seconds
//	{"ev":"collect"}            one tick of the access-log based histogram managers (transactionMetricsManager.collectMetrics and,
//	                            when the start event says "legacy":true, LegacyMetricManager.collectMetrics - production runs
//	                            them from tickers; exported under the verif tag)
//
// trace (outdir/trace-NNN.ndjson, one file per script chunk): {"ev":"config"} then per script {"ev":"reset",...} and the
// events above echoed with what the engine answered ("ans") / exported ("samples").
package main

import (
	"bytes"
	"encoding/json"
	"fmt"
	"io"
	"math"
	"net"
	"net/http"
	"net/http/httptest"
	"os"
	"os/exec"
	"path/filepath"
	"sort"
	"strconv"
	"strings"
	"sync"
	"time"

	"lunar/aggregation-plugin/common"
	"lunar/aggregation-plugin/discovery"
	"lunar/engine/actions"
	"lunar/engine/metrics"
	"lunar/engine/routing"
	contextmanager "lunar/toolkit-core/context-manager"
	"lunar/toolkit-core/verifhook"
	sharedConfig "lunar/shared-model/config"
	sharedDiscovery "lunar/shared-model/discovery"

	"github.com/negasus/haproxy-spoe-go/action"
	"github.com/negasus/haproxy-spoe-go/message"
	"github.com/negasus/haproxy-spoe-go/payload/kv"
	"github.com/negasus/haproxy-spoe-go/request"
	"github.com/prometheus/client_golang/prometheus"
	dto "github.com/prometheus/client_model/go"

	"verifharness/internal/vh"
)

var base = time.Date(2024, 1, 1, 0, 0, 0, 0, time.UTC)

const baseMs = int64(1_700_000_000_000)

type Script struct {
	ID        int              `json:"id"`
	Known     []string         `json:"known"`
	Threshold int              `json:"threshold"`
	Events    []map[string]any `json:"events"`
}

func str(m map[string]any, k string) string {
	if v, ok := m[k].(string); ok {
		return v
	}
	return ""
}

func num(m map[string]any, k string) int64 {
	if v, ok := m[k].(float64); ok {
		return int64(v)
	}
	return 0
}

func strs(m map[string]any, k string) []string {
	out := []string{}
	if l, ok := m[k].([]any); ok {
		for _, x := range l {
			if s, ok := x.(string); ok {
				out = append(out, s)
			}
		}
	}
	return out
}

func strmap(m map[string]any, k string) map[string]string {
	out := map[string]string{}
	if mm, ok := m[k].(map[string]any); ok {
		for kk, v := range mm {
			if s, ok := v.(string); ok {
				out[kk] = s
			}
		}
	}
	return out
}

func echo(e map[string]any) vh.Ev {
	out := vh.Ev{}
	for k, v := range e {
		if k == "files" {
			continue // the rendered YAML is bulk the specification does not read (it reads "flows" / "quotas")
		}
		out[k] = v
	}
	return out
}

// ------------------------------------------------------------------------------------------------ parent

func fakeHAProxy() (string, func()) {
	ln, err := net.Listen("tcp", ":0") // both address families of localhost
	if err != nil {
		vh.Die("listen: %v", err)
	}
	srv := &http.Server{Handler: http.HandlerFunc(func(w http.ResponseWriter, r *http.Request) {
		io.Copy(io.Discard, r.Body)
		w.WriteHeader(200)
		w.Write([]byte("OK\n")) // the engine's health check fails on an empty body
	})}
	go srv.Serve(ln) //nolint:errcheck
	return strconv.Itoa(ln.Addr().(*net.TCPAddr).Port), func() { srv.Close() }
}

type segment struct {
	Known     []string         `json:"known"`
	Threshold int              `json:"threshold"`
	Events    []map[string]any `json:"events"`
	Seq       int              `json:"seq"` // access-log sequence numbers continue over the segments of a script
}

func runScript(sc Script, work, port, exe string) []vh.Ev {
	dir := filepath.Join(work, fmt.Sprintf("s%d", sc.ID))
	if err := os.MkdirAll(dir, 0o755); err != nil {
		vh.Die("mkdir: %v", err)
	}
	defer os.RemoveAll(dir)
	out := []vh.Ev{{"ev": "reset", "id": sc.ID, "known": sc.Known, "threshold": sc.Threshold}}
	// split at every start: one engine process per segment, the directory (discovery state file) stays
	var segs [][]map[string]any
	for _, e := range sc.Events {
		if str(e, "ev") == "start" || len(segs) == 0 {
			segs = append(segs, nil)
		}
		segs[len(segs)-1] = append(segs[len(segs)-1], e)
	}
	seq := 0
	for si, evs := range segs {
		in := filepath.Join(dir, fmt.Sprintf("seg-%d.json", si))
		res := filepath.Join(dir, fmt.Sprintf("seg-%d.out", si))
		vh.WriteJSON(in, segment{Known: sc.Known, Threshold: sc.Threshold, Events: evs, Seq: seq})
		root := filepath.Join(dir, "root")
		cmd := exec.Command(exe, "child", in, res)
		cmd.Dir = dir
		cmd.Env = append(os.Environ(),
			"LUNAR_STREAMS_ENABLED=true",
			"LUNAR_PROXY_FLOW_DIRECTORY="+filepath.Join(root, "flows"),
			"LUNAR_PROXY_QUOTAS_DIRECTORY="+filepath.Join(root, "quotas"),
			"LUNAR_FLOWS_PATH_PARAM_DIR="+filepath.Join(root, "path_params"),
			"LUNAR_PROXY_CONFIG="+filepath.Join(root, "gateway_config.yaml"),
			"LUNAR_PROXY_METRICS_CONFIG="+filepath.Join(root, "metrics.yaml"),
			"LUNAR_PROXY_METRICS_CONFIG_DEFAULT="+filepath.Join(root, "default_metrics.yaml"),
			"LUNAR_FLOWS_PATH_PARAM_CONFIG="+filepath.Join(dir, "generated_path_params.yaml"),
			"HAPROXY_MANAGE_ENDPOINTS_PORT="+port,
			"LUNAR_HEALTHCHECK_PORT="+port,
			"METRICS_LISTEN_PORT=0",
			"TENANT_NAME=verif",
			"DISCOVERY_STATE_LOCATION="+filepath.Join(dir, "discovery.json"),
			"REMEDY_STATE_LOCATION="+filepath.Join(dir, "remedy.json"),
			"LOG_LEVEL=panic",
			"LUNAR_ACCESS_LOG_METRICS_COLLECTION_TIME_INTERVAL_SEC=86400",
			"X09_ROOT="+root,
		)
		cmd.Env = append(cmd.Env, "GATEWAY_INSTANCE_ID="+str(evs[0], "gw"))
		var stderr bytes.Buffer
		cmd.Stderr = &stderr
		cmd.Stdout = &stderr
		err := cmd.Run()
		var evsOut []vh.Ev
		if b, rerr := os.ReadFile(res); rerr == nil {
			for _, line := range bytes.Split(b, []byte("\n")) {
				if len(bytes.TrimSpace(line)) == 0 {
					continue
				}
				var e vh.Ev
				if json.Unmarshal(line, &e) == nil {
					evsOut = append(evsOut, e)
				}
			}
		}
		out = append(out, evsOut...)
		if err != nil {
			// the engine process died (panic / fatal error): an observation, the script ends here
			msg := stderr.String()
			if len(msg) > 600 {
				msg = msg[len(msg)-600:]
			}
			out = append(out, vh.Ev{"ev": "crash", "err": err.Error(), "stderr": msg})
			break
		}
		for _, e := range evsOut {
			if e["ev"] == "txn" {
				seq++
			}
		}
	}
	out = append(out, vh.Ev{"ev": "final"})
	return out
}

func parent() {
	var scripts []Script
	vh.ReadJSON(os.Args[2], &scripts)
	outdir, _ := filepath.Abs(os.Args[3])
	par := 4
	if len(os.Args) > 4 {
		par, _ = strconv.Atoi(os.Args[4])
	}
	chunk := 40
	if len(os.Args) > 5 {
		chunk, _ = strconv.Atoi(os.Args[5])
	}
	exe, err := os.Executable()
	if err != nil {
		vh.Die("executable: %v", err)
	}
	work, err := os.MkdirTemp("", "x09-")
	if err != nil {
		vh.Die("tmp: %v", err)
	}
	defer os.RemoveAll(work)
	port, stop := fakeHAProxy()
	defer stop()
	results := make([][]vh.Ev, len(scripts))
	var wg sync.WaitGroup
	sem := make(chan struct{}, par)
	for i := range scripts {
		wg.Add(1)
		sem <- struct{}{}
		go func(i int) {
			defer wg.Done()
			defer func() { <-sem }()
			results[i] = runScript(scripts[i], work, port, exe)
		}(i)
	}
	wg.Wait()
	nfiles := 0
	for lo := 0; lo < len(scripts); lo += chunk {
		tr := vh.NewTrace()
		tr.Add(vh.Ev{"ev": "config"})
		for i := lo; i < len(scripts) && i < lo+chunk; i++ {
			for _, e := range results[i] {
				tr.Add(e)
			}
		}
		tr.Write(filepath.Join(outdir, fmt.Sprintf("trace-%03d.ndjson", nfiles)))
		nfiles++
	}
	fmt.Printf("{\"scripts\":%d,\"files\":%d}\n", len(scripts), nfiles)
}

// ------------------------------------------------------------------------------------------------- child

// processor executions reported by the engine's execution hook (proc.exec), per transaction
var (
	procMu sync.Mutex
	procs  [][]string
)

func sink(point string, kv ...any) {
	if point != "proc.exec" {
		return
	}
	m := map[string]any{}
	for i := 0; i+1 < len(kv); i += 2 {
		m[fmt.Sprint(kv[i])] = kv[i+1]
	}
	dir := "resp"
	if strings.Contains(fmt.Sprint(m["dir"]), "Request") {
		dir = "req"
	}
	procMu.Lock()
	procs = append(procs, []string{fmt.Sprint(m["flow"]), fmt.Sprint(m["key"]), dir, fmt.Sprint(m["out"])})
	procMu.Unlock()
}

func takeProcs() [][]string {
	procMu.Lock()
	defer procMu.Unlock()
	p := procs
	procs = nil
	if p == nil {
		p = [][]string{}
	}
	return p
}

type child struct {
	root    string
	dm      *routing.HandlingDataManager
	handler routing.MessageHandler
	legacy  *metrics.LegacyMetricManager
	mux     *http.ServeMux
	state   *discovery.State
	tree    *common.SimpleURLTree
	pending []common.AccessLog
	seq     int
	mtime   time.Time
	out     *os.File
}

func (c *child) emit(e vh.Ev) {
	b, err := json.Marshal(e)
	if err != nil {
		vh.Die("marshal: %v", err)
	}
	c.out.Write(append(b, '\n'))
}

func metricsYAML(e map[string]any) string {
	var b strings.Builder
	b.WriteString("general_metrics:\n  label_value:")
	labels := strs(e, "labels")
	if len(labels) == 0 {
		b.WriteString(" []\n")
	} else {
		b.WriteString("\n")
		for _, l := range labels {
			fmt.Fprintf(&b, "    - %s\n", l)
		}
	}
	b.WriteString("  metric_value:")
	gm := strs(e, "gm")
	if len(gm) == 0 {
		b.WriteString(" []\n")
	} else {
		b.WriteString("\n")
		for _, m := range gm {
			fmt.Fprintf(&b, "    - name: %s\n      description: %s of the run\n", m, m)
			if strings.HasSuffix(m, "transaction_duration") {
				b.WriteString("      buckets: [10, 20, 50, 100]\n")
			}
		}
	}
	b.WriteString("system_metrics:")
	sm := strs(e, "sm")
	if len(sm) == 0 {
		b.WriteString(" []\n")
	} else {
		b.WriteString("\n")
		for _, m := range sm {
			fmt.Fprintf(&b, "  - name: %s\n    description: %s of the run\n", m, m)
		}
	}
	b.WriteString("labeled_endpoints:")
	lep := strs(e, "lep")
	if len(lep) == 0 {
		b.WriteString(" []\n")
	} else {
		b.WriteString("\n")
		for _, m := range lep {
			fmt.Fprintf(&b, "  - \"%s\"\n", m)
		}
	}
	return b.String()
}

func (c *child) writeDisk(e map[string]any) {
	for _, sub := range []string{"flows", "quotas", "path_params"} {
		d := filepath.Join(c.root, sub)
		os.RemoveAll(d)
		if err := os.MkdirAll(d, 0o755); err != nil {
			vh.Die("mkdir: %v", err)
		}
	}
	for rel, content := range strmap(e, "files") {
		p := filepath.Join(c.root, rel)
		if err := os.WriteFile(p, []byte(content), 0o644); err != nil {
			vh.Die("write: %v", err)
		}
	}
	my := metricsYAML(e)
	for _, f := range []string{"metrics.yaml", "default_metrics.yaml"} {
		if err := os.WriteFile(filepath.Join(c.root, f), []byte(my), 0o644); err != nil {
			vh.Die("write: %v", err)
		}
	}
	gw := filepath.Join(c.root, "gateway_config.yaml")
	if _, err := os.Stat(gw); err != nil {
		os.WriteFile(gw, []byte("{}\n"), 0o644) //nolint:errcheck
	}
}

func (c *child) spoe(name string, args [][2]any) (as action.Actions, ok bool, perr string) {
	defer func() {
		if p := recover(); p != nil {
			perr = fmt.Sprintf("panic: %v", p)
		}
	}()
	k := kv.NewKV()
	for _, a := range args {
		k.Add(a[0].(string), a[1])
	}
	req := &request.Request{Messages: &message.Messages{{Name: name, KV: k}}}
	c.handler(req)
	return req.Actions, req.Actions != nil, ""
}

// what was handed to the proxy, reduced to the fields the specification talks about
func decode(as action.Actions) (early bool, st int, names []string) {
	st = -1
	names = []string{}
	for _, a := range as {
		if a.Type != action.TypeSetVar {
			continue
		}
		names = append(names, a.Name)
		switch a.Name {
		case actions.ReturnEarlyResponseActionName:
			early, _ = a.Value.(bool)
		case actions.StatusCodeActionName:
			switch x := a.Value.(type) {
			case int:
				st = x
			case int32:
				st = int(x)
			case int64:
				st = int(x)
			}
		}
	}
	sort.Strings(names)
	return
}

func (c *child) txn(e map[string]any) vh.Ev {
	out := echo(e)
	id, m, url := str(e, "id"), str(e, "m"), str(e, "url")
	host, path := url, "/"
	if i := strings.Index(url, "/"); i >= 0 {
		host, path = url[:i], url[i:]
	}
	hdr := fmt.Sprintf("host: %s\r\n", host)
	if t := str(e, "tag"); t != "" && t != "-" {
		hdr += fmt.Sprintf("x-lunar-consumer-tag: %s\r\n", t)
	}
	if h := str(e, "hx"); h != "" {
		hdr += fmt.Sprintf("x-a: %s\r\n", h)
	}
	takeProcs()
	as, ok, perr := c.spoe("lunar-on-request", [][2]any{
		{"id", id}, {"sequence_id", id}, {"method", m}, {"scheme", "https"}, {"url", url},
		{"path", path}, {"query", ""}, {"headers", hdr}, {"body", []byte("")},
	})
	early, est, names := decode(as)
	ans := vh.Ev{"answered": ok, "early": early, "st": est, "names": names}
	if perr != "" {
		ans["err"] = perr
	}
	out["ans"] = ans
	status := int(num(e, "st"))
	if early {
		status = est
	} else {
		rh := "content-type: text/plain\r\n"
		if cl := num(e, "clen"); cl >= 0 {
			rh += fmt.Sprintf("content-length: %d\r\n", cl)
		}
		body := bytes.Repeat([]byte("x"), int(num(e, "blen")))
		ras, rok, rerr := c.spoe("lunar-on-response", [][2]any{
			{"id", id}, {"sequence_id", id}, {"method", m}, {"url", url}, {"status", int64(status)},
			{"headers", rh}, {"body", body},
		})
		_, _, rnames := decode(ras)
		rans := vh.Ev{"answered": rok, "names": rnames}
		if rerr != "" {
			rans["err"] = rerr
		}
		out["rans"] = rans
	}
	out["procs"] = takeProcs()
	tag := str(e, "tag")
	if tag == "" {
		tag = "-"
	}
	c.pending = append(c.pending, common.AccessLog{
		Timestamp: baseMs + int64(c.seq)*1000, Duration: int(num(e, "d")), TotalDuration: int(num(e, "td")),
		StatusCode: status, Method: m, Host: host, URL: url, Interceptor: "lunar-direct/0", ConsumerTag: tag,
		Internal: false, RequestID: id,
	})
	c.seq++
	out["logged"] = vh.Ev{"m": m, "url": url, "st": status, "tag": tag, "d": num(e, "d"), "td": num(e, "td")}
	return out
}

func (c *child) flush(e map[string]any) vh.Ev {
	out := echo(e)
	n := int(num(e, "n"))
	if n > len(c.pending) {
		n = len(c.pending)
	}
	out["n"] = n
	batch := c.pending[:n]
	c.pending = c.pending[n:]
	func() {
		defer func() {
			if p := recover(); p != nil {
				out["err"] = fmt.Sprintf("panic: %v", p)
			}
		}()
		if err := discovery.Run(c.state, batch, c.tree); err != nil {
			out["err"] = err.Error()
		}
	}()
	// which endpoint the plugin's URL tree folds a URL into is the tree's answer (an input of the property, see C15):
	// reported for the URLs of this batch, right after discovery counted them
	attr := [][][]string{}
	done := map[string]bool{}
	for _, r := range batch {
		if done[r.URL] {
			continue
		}
		done[r.URL] = true
		nu, ok := common.StrictNormalizeURL(c.tree, r.URL)
		if !ok {
			nu = r.URL
		}
		attr = append(attr, [][]string{strings.Split(r.URL, "/"), strings.Split(nu, "/")})
	}
	out["attr"] = attr
	// time passes between two flushes of the plugin: the state file's modification time moves on
	c.mtime = c.mtime.Add(time.Second)
	os.Chtimes(c.state.DiscoverFilepath, c.mtime, c.mtime) //nolint:errcheck
	return out
}

func labelsOf(m *dto.Metric) [][]string {
	out := [][]string{}
	for _, lp := range m.GetLabel() {
		out = append(out, []string{lp.GetName(), lp.GetValue()})
	}
	sort.Slice(out, func(i, j int) bool { return out[i][0] < out[j][0] })
	return out
}

func milli(f float64) int64 {
	x := math.Round(f * 1000)
	if math.IsNaN(x) || math.IsInf(x, 0) || x > 2e9 || x < -2e9 {
		return 2_000_000_000
	}
	return int64(x)
}

func relevant(name string) bool {
	if strings.HasPrefix(name, "lunar_") {
		return true
	}
	for _, s := range []string{"api_call_count", "api_call_size", "transaction_duration", "active_flows", "flow_invocations",
		"requests_through_flows", "avg_flow_execution_time", "avg_processor_execution_time"} {
		if strings.Contains(name, s) {
			return true
		}
	}
	return false
}

func scrape() (samples []vh.Ev, gerr string) {
	samples = []vh.Ev{}
	mfs, err := prometheus.DefaultGatherer.Gather()
	if err != nil {
		gerr = err.Error()
		if len(gerr) > 300 {
			gerr = gerr[:300]
		}
	}
	for _, mf := range mfs {
		if !relevant(mf.GetName()) {
			continue
		}
		for _, m := range mf.GetMetric() {
			s := vh.Ev{"n": mf.GetName(), "t": strings.ToLower(mf.GetType().String()), "l": labelsOf(m), "p": 0, "sum": 0}
			pos := func(f float64) int {
				if f > 0 {
					return 1
				}
				return 0
			}
			switch {
			case m.Counter != nil:
				s["v"] = milli(m.Counter.GetValue())
				s["p"] = pos(m.Counter.GetValue())
			case m.Gauge != nil:
				s["v"] = milli(m.Gauge.GetValue())
				s["p"] = pos(m.Gauge.GetValue())
			case m.Histogram != nil:
				s["v"] = int64(m.Histogram.GetSampleCount()) * 1000
				s["p"] = pos(float64(m.Histogram.GetSampleCount()))
				s["sum"] = milli(m.Histogram.GetSampleSum())
				bk := [][]int64{}
				for _, b := range m.Histogram.GetBucket() {
					bk = append(bk, []int64{milli(b.GetUpperBound()), int64(b.GetCumulativeCount())})
				}
				s["b"] = bk
			case m.Untyped != nil:
				s["v"] = milli(m.Untyped.GetValue())
			}
			samples = append(samples, s)
		}
	}
	sort.Slice(samples, func(i, j int) bool {
		a, _ := json.Marshal(samples[i])
		b, _ := json.Marshal(samples[j])
		return string(a) < string(b)
	})
	return
}

func (c *child) start(e map[string]any) vh.Ev {
	out := echo(e)
	c.writeDisk(e)
	contextmanager.Get().SetMockClock()
	contextmanager.Get().GetMockClock().Set(base)
	c.dm = routing.VerifNewStreamsManager()
	var err error
	func() {
		defer func() {
			if p := recover(); p != nil {
				err = fmt.Errorf("panic: %v", p)
			}
		}()
		err = c.dm.Setup(nil)
	}()
	if err != nil {
		out["refused"] = err.Error()
		return out
	}
	c.mux = http.NewServeMux()
	c.dm.SetHandleRoutes(c.mux)
	c.handler = routing.Handler(c.dm)
	if b, _ := e["legacy"].(bool); b {
		// the policy-mode histogram manager, fed by the same discovery state file (it needs nothing else of policy mode)
		c.legacy, err = metrics.NewLegacyMetricManager(sharedConfig.Exporters{})
		if err != nil {
			out["refused"] = "legacy metric manager: " + err.Error()
		}
	}
	return out
}

func (c *child) reload(e map[string]any) vh.Ev {
	out := echo(e)
	c.writeDisk(e)
	w := httptest.NewRecorder()
	c.mux.ServeHTTP(w, httptest.NewRequest(http.MethodPost, "/load_flows", nil))
	out["code"] = w.Code
	if w.Code != 200 {
		b := w.Body.String()
		if len(b) > 300 {
			b = b[:300]
		}
		out["body"] = b
	}
	return out
}

func runChild() {
	vh.Quiet()
	verifhook.SetSink(sink)
	var seg segment
	vh.ReadJSON(os.Args[2], &seg)
	f, err := os.Create(os.Args[3])
	if err != nil {
		vh.Die("create: %v", err)
	}
	defer f.Close()
	c := &child{root: os.Getenv("X09_ROOT"), out: f, seq: seg.Seq}
	if err := os.MkdirAll(c.root, 0o755); err != nil {
		vh.Die("mkdir: %v", err)
	}
	// the aggregation plugin next to the engine: state file shared through DISCOVERY_STATE_LOCATION; the plugin process
	// restarts together with the gateway container (InitializeState reads the file back)
	known := sharedDiscovery.KnownEndpoints{}
	for _, u := range seg.Known {
		known.Endpoints = append(known.Endpoints, sharedDiscovery.Endpoint{Method: "GET", URL: u})
	}
	c.tree, err = common.BuildTree(known, seg.Threshold)
	if err != nil {
		vh.Die("BuildTree: %v", err)
	}
	c.state = &discovery.State{DiscoverFilepath: os.Getenv("DISCOVERY_STATE_LOCATION")}
	if err := c.state.InitializeState(); err != nil {
		vh.Die("InitializeState: %v", err)
	}
	if st, err := os.Stat(c.state.DiscoverFilepath); err == nil {
		c.mtime = st.ModTime()
	}
	started := false
	for _, e := range seg.Events {
		switch str(e, "ev") {
		case "start":
			o := c.start(e)
			c.emit(o)
			started = o["refused"] == nil
		case "txn":
			if started {
				c.emit(c.txn(e))
			}
		case "flush":
			c.emit(c.flush(e))
		case "scrape":
			o := echo(e)
			s, gerr := scrape()
			o["samples"] = s
			if gerr != "" {
				o["gerr"] = gerr
			}
			o["pending"] = len(c.pending)
			c.emit(o)
		case "reload":
			if started {
				c.emit(c.reload(e))
			}
		case "collect":
			if started {
				o := echo(e)
				o["ran"] = c.dm.GetMetricManager().VerifCollectAccessLogMetrics()
				if c.legacy != nil {
					c.legacy.VerifCollect()
				}
				c.emit(o)
			}
		case "tick":
			clk := contextmanager.Get().GetMockClock()
			clk.Set(clk.Now().Add(time.Duration(num(e, "d")) * time.Second))
			c.emit(echo(e))
		default:
			vh.Die("unknown event %v", e["ev"])
		}
	}
	// records not flushed when the process ends are lost with HAProxy's buffer: the next segment starts with none
}

func main() {
	if len(os.Args) >= 4 && os.Args[1] == "child" {
		runChild()
		return
	}
	if len(os.Args) < 4 || os.Args[1] != "run" {
		vh.Die("usage: x09 run <scripts.json> <outdir> [parallel] [scripts per trace file]")
	}
	parent()
}
