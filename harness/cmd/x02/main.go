// x02: executes transaction scripts against a real flows-mode engine (streams.Stream built from YAML
// flow files: ReadCache / WriteCache / TransformAPICall processors) on the mock clock and records what
// the engine answered, as NDJSON traces for TLC.  A pure executor: nothing here judges an outcome.
//
//	x02 run <scripts.json> <outdir>
//
// scripts.json: [{"config":{...}, "histories":[[event,...],...]}, ...]; one trace-NNN.ndjson per script.
// event (every field the executor does not know is echoed into the trace unchanged):
//
//	{"ev":"reset","files":{"flows/f.yaml":"..."},"share":bool,...}   fresh engine from the files at mock instant 0;
//	      share = the ReadCache / WriteCache processors of the engine are given ONE store (what a deployment with the
//	      shared state gives them); otherwise every processor keeps the private in-memory store the build gives it
//	{"ev":"adv","ms":n}                                              mock clock advanced
//	{"ev":"req","id":..,"m":..,"host":..,"path":..,"query":..,"h":{..},"body":..|"bodygen":{"v":..,"pad":n}}
//	      request side of transaction id; recorded: procs (processor outputs), early/est/ebody|ebodygen/eh (early
//	      response), mod/mh/mhost/mpath/mquery/mbody (last modify-request action), doc_out (flattened request the
//	      proxy would send upstream, see reqDoc)
//	{"ev":"resp","id":..,"m":..,"host":..,"path":..,"st":..,"h":{..},"body":..|"bodygen":..}
//	      response side of transaction id (the request stored by the request side is found through the shared
//	      transaction state exactly as routing.processResponse finds it); recorded: procs, mod/mst/mh/mbody, doc_out.
//	      Skipped (no event) when the request side of that transaction was answered with an early response.
//
// "bodygen" {"v":tag,"pad":n} stands for the JSON text {"pad":"ppp...(n)","v":"<tag>"}; an early-response body of
// exactly that form is reported as ebodygen (decode/encode only, so that megabyte bodies do not travel through TLC).
package main

import (
	"encoding/json"
	"fmt"
	"net/url"
	"os"
	"path/filepath"
	"sort"
	"strings"
	"sync"
	"time"

	"lunar/engine/actions"
	lunar_messages "lunar/engine/messages"
	stream_config "lunar/engine/streams/config"
	lunar_context "lunar/engine/streams/lunar-context"
	read_cache "lunar/engine/streams/processors/read-cache"
	write_cache "lunar/engine/streams/processors/write-cache"
	public_types "lunar/engine/streams/public-types"
	stream_types "lunar/engine/streams/types"
	"lunar/toolkit-core/verifhook"

	"verifharness/internal/c01eng"
	"verifharness/internal/vh"
)

type Script struct {
	Config    map[string]any     `json:"config"`
	Histories [][]map[string]any `json:"histories"`
}

var base = time.Unix(3_400_000_000, 0) // a whole second

func str(m map[string]any, k string) string {
	if v, ok := m[k].(string); ok {
		return v
	}
	return ""
}

func num(m map[string]any, k string) int64 {
	if v, ok := m[k].(float64); ok {
		return int64(v)
	}
	return 0
}

func strmap(m map[string]any, k string) map[string]string {
	out := map[string]string{}
	if v, ok := m[k].(map[string]any); ok {
		for a, b := range v {
			out[a] = fmt.Sprint(b)
		}
	}
	return out
}

func genBody(g map[string]any) string {
	return fmt.Sprintf(`{"pad":"%s","v":"%s"}`, strings.Repeat("p", int(num(g, "pad"))), str(g, "v"))
}

func bodyOf(e map[string]any) string {
	if g, ok := e["bodygen"].(map[string]any); ok {
		return genBody(g)
	}
	return str(e, "body")
}

// putBody records a body either literally or, when it has the generated form, as its descriptor.
func putBody(out vh.Ev, key string, body string) {
	var m map[string]any
	if len(body) > 64 && json.Unmarshal([]byte(body), &m) == nil && len(m) == 2 {
		v, ok1 := m["v"].(string)
		p, ok2 := m["pad"].(string)
		if ok1 && ok2 && strings.Trim(p, "p") == "" {
			g := map[string]any{"v": v, "pad": float64(len(p))}
			if genBody(g) == body {
				out[key+"gen"] = map[string]any{"v": v, "pad": len(p)}
				return
			}
		}
	}
	out[key] = body
}

// flatten turns a decoded JSON value into [path, leaf] pairs (path = list of keys; array index i = "[i]").
func flatten(prefix []string, v any, out *[][]any) {
	switch t := v.(type) {
	case map[string]any:
		if len(t) == 0 {
			*out = append(*out, []any{append([]string{}, prefix...), []string{"o", "{}"}})
		}
		keys := make([]string, 0, len(t))
		for k := range t {
			keys = append(keys, k)
		}
		sort.Strings(keys)
		for _, k := range keys {
			flatten(append(prefix, k), t[k], out)
		}
	case []any:
		if len(t) == 0 {
			*out = append(*out, []any{append([]string{}, prefix...), []string{"a", "[]"}})
		}
		for i, x := range t {
			flatten(append(prefix, fmt.Sprintf("[%d]", i)), x, out)
		}
	case string:
		*out = append(*out, []any{append([]string{}, prefix...), []string{"s", t}})
	case float64:
		*out = append(*out, []any{append([]string{}, prefix...), []string{"n", fmt.Sprint(t)}})
	case bool:
		*out = append(*out, []any{append([]string{}, prefix...), []string{"b", fmt.Sprint(t)}})
	case nil:
		*out = append(*out, []any{append([]string{}, prefix...), []string{"z", ""}})
	}
}

// doc: the transaction as a flat document  [[path, [type, value]], ...] (type s/n/b/z, o = empty object, a = empty array):  headers/<name>, body/<field>/.., query/<param>,
// path, host, status.  A body that is not a JSON object is one leaf "body" = "raw:<text>".
func doc(headers map[string]string, body, host, path, query string, status int, isResp bool) [][]any {
	out := [][]any{}
	hk := make([]string, 0, len(headers))
	for k := range headers {
		hk = append(hk, k)
	}
	sort.Strings(hk)
	for _, k := range hk {
		out = append(out, []any{[]string{"headers", k}, []string{"s", headers[k]}})
	}
	var m map[string]any
	if body == "" {
		// no body
	} else if err := json.Unmarshal([]byte(body), &m); err == nil {
		flatten([]string{"body"}, m, &out)
	} else {
		out = append(out, []any{[]string{"body"}, []string{"raw", body}})
	}
	if isResp {
		out = append(out, []any{[]string{"status"}, []string{"n", fmt.Sprint(status)}})
		return out
	}
	out = append(out, []any{[]string{"host"}, []string{"s", host}})
	out = append(out, []any{[]string{"path"}, []string{"s", path}})
	if q, err := url.ParseQuery(query); err == nil {
		qk := make([]string, 0, len(q))
		for k := range q {
			qk = append(qk, k)
		}
		sort.Strings(qk)
		for _, k := range qk {
			for i, v := range q[k] {
				if i == 0 {
					out = append(out, []any{[]string{"query", k}, []string{"s", v}})
				} else {
					out = append(out, []any{[]string{"query", k, fmt.Sprintf("[%d]", i)}, []string{"s", v}})
				}
			}
		}
	} else {
		out = append(out, []any{[]string{"query"}, []string{"raw", query}})
	}
	return out
}

type run struct {
	answered map[string]bool // transactions answered on the request side: the provider never responds to them
	eng    *c01eng.Engine
	shared public_types.SharedStateI[[]byte]
	now    time.Time
	mu     sync.Mutex
	procs  [][]string
}

var cur *run

func sink(point string, kv ...any) {
	if point != "proc.exec" || cur == nil {
		return
	}
	m := map[string]any{}
	for i := 0; i+1 < len(kv); i += 2 {
		m[fmt.Sprint(kv[i])] = kv[i+1]
	}
	cur.mu.Lock()
	cur.procs = append(cur.procs, []string{fmt.Sprint(m["key"]), fmt.Sprint(m["out"])})
	cur.mu.Unlock()
}

func (r *run) takeProcs() [][]string {
	r.mu.Lock()
	defer r.mu.Unlock()
	p := r.procs
	r.procs = nil
	if p == nil {
		p = [][]string{}
	}
	return p
}

func echo(e map[string]any) vh.Ev {
	out := vh.Ev{}
	for k, v := range e {
		if k != "files" {
			out[k] = v
		}
	}
	return out
}

// shareStores gives every ReadCache / WriteCache processor named in `procs` ("flow/key") one common store.
func shareStores(eng *c01eng.Engine, procs []any) error {
	store := lunar_context.NewMemoryState[[]byte]()
	for _, x := range procs {
		parts := strings.SplitN(fmt.Sprint(x), "/", 2)
		if len(parts) != 2 {
			return fmt.Errorf("bad processor reference %v", x)
		}
		p, ok := eng.S.VerifProcessor(parts[0], parts[1])
		if !ok {
			return fmt.Errorf("processor %v not found", x)
		}
		if !read_cache.VerifSetStore(p, store) && !write_cache.VerifSetStore(p, store) {
			return fmt.Errorf("processor %v is neither ReadCache nor WriteCache", x)
		}
	}
	return nil
}

func (r *run) request(e map[string]any) vh.Ev {
	out := echo(e)
	body := bodyOf(e)
	host, path, query := str(e, "host"), str(e, "path"), str(e, "query")
	h := strmap(e, "h")
	api := stream_types.NewRequestAPIStream(lunar_messages.OnRequest{
		ID: str(e, "id"), SequenceID: str(e, "id"), Method: str(e, "m"), Scheme: "https",
		URL: host + path, Path: path, Query: query, Headers: h, RawBody: []byte(body), Time: r.now,
	}, r.shared)
	acts := &stream_config.StreamActions{Request: &stream_config.RequestStream{}, Response: &stream_config.ResponseStream{}}
	if err := r.eng.S.ExecuteFlow(api, acts); err != nil {
		out["err"] = err.Error()
	}
	api.StoreRequest() // routing.processRequest: defer apiStream.StoreRequest()
	out["procs"] = r.takeProcs()
	out["nact"] = len(acts.Request.Actions)
	out["early"] = false
	out["mod"] = false
	// what goes upstream: the original request unless a modify-request action replaces parts of it
	uh, ubody, uhost, upath, uquery := strmap(e, "h"), body, host, path, query
	for _, a := range acts.Request.Actions {
		switch t := a.(type) {
		case *actions.EarlyResponseAction:
			if out["early"] == false {
				out["early"] = true
				out["est"] = t.Status
				putBody(out, "ebody", t.Body)
				eh := map[string]string{}
				for k, v := range t.Headers {
					eh[k] = v
				}
				out["eh"] = eh
			}
		case *actions.ModifyRequestAction:
			out["mod"] = true
			mh := map[string]string{}
			for k, v := range t.HeadersToSet {
				mh[k] = v
			}
			out["mh"], out["mhost"], out["mpath"], out["mquery"], out["mbody"] = mh, t.Host, t.Path, t.QueryParams, t.Body
			// the proxy's modify_request service (lunar.lua): headers and query are replaced, body / host / path
			// fall back to the original ones when empty
			uh, uquery = mh, t.QueryParams
			if t.Body != "" {
				ubody = t.Body
			}
			if t.Host != "" {
				uhost = t.Host
			}
			if t.Path != "" {
				upath = t.Path
			}
		}
	}
	if e["want_doc"] == true {
		out["doc_in"] = doc(strmap(e, "h"), body, host, path, query, 0, false)
		out["doc_out"] = doc(uh, ubody, uhost, upath, uquery, 0, false)
	}
	return out
}

func (r *run) response(e map[string]any) vh.Ev {
	out := echo(e)
	body := bodyOf(e)
	h := strmap(e, "h")
	st := int(num(e, "st"))
	api := stream_types.NewResponseAPIStream(lunar_messages.OnResponse{
		ID: str(e, "id"), SequenceID: str(e, "id"), Method: str(e, "m"), URL: str(e, "host") + str(e, "path"),
		Status: st, Headers: h, RawBody: []byte(body), Time: r.now,
	}, r.shared)
	acts := &stream_config.StreamActions{Request: &stream_config.RequestStream{}, Response: &stream_config.ResponseStream{}}
	if err := r.eng.S.ExecuteFlow(api, acts); err != nil {
		out["err"] = err.Error()
	}
	api.DiscardRequest() // routing.processResponse: defer apiStream.DiscardRequest()
	out["procs"] = r.takeProcs()
	out["nact"] = len(acts.Response.Actions)
	out["mod"] = false
	uh, ubody, ust := strmap(e, "h"), body, st
	for _, a := range acts.Response.Actions {
		if t, ok := a.(*actions.ModifyResponseAction); ok {
			out["mod"] = true
			mh := map[string]string{}
			for k, v := range t.HeadersToSet {
				mh[k] = v
			}
			out["mh"], out["mst"], out["mbody"] = mh, t.Status, t.Body
			// the proxy's modify_response action: with a body the response is rebuilt from the action
			uh, ust = mh, t.Status
			if t.Body != "" {
				ubody = t.Body
			}
		}
	}
	if e["want_doc"] == true {
		out["doc_in"] = doc(strmap(e, "h"), body, "", "", "", st, true)
		out["doc_out"] = doc(uh, ubody, "", "", "", ust, true)
	}
	return out
}

func main() {
	if os.Getenv("X02_LOG") == "" {
		vh.Quiet()
	}
	if len(os.Args) != 4 || os.Args[1] != "run" {
		vh.Die("usage: x02 run <scripts.json> <outdir>")
	}
	var scripts []Script
	vh.ReadJSON(os.Args[2], &scripts)
	verifhook.SetSink(sink)
	for si := range scripts {
		sc := &scripts[si]
		tr := vh.NewTrace()
		cfg := vh.Ev{"ev": "config"}
		for k, v := range sc.Config {
			cfg[k] = v
		}
		tr.Add(cfg)
		var prev *c01eng.Engine
		for _, h := range sc.Histories {
			var r *run
			for _, e := range h {
				switch str(e, "ev") {
				case "reset":
					files := strmap(e, "files")
					dir, err := c01eng.WriteFiles(files)
					if err != nil {
						vh.Die("files: %v", err)
					}
					out := echo(e)
					eng, err := c01eng.New(dir, base, prev)
					os.RemoveAll(dir)
					if err == nil {
						if ps, ok := e["share"].([]any); ok && len(ps) > 0 {
							err = shareStores(eng, ps)
						}
					}
					if err != nil {
						out["refused"] = err.Error()
						tr.Add(out)
						r = nil
						continue
					}
					prev = eng
					r = &run{eng: eng, shared: lunar_context.NewMemoryState[[]byte](), now: base, answered: map[string]bool{}}
					cur = r
					tr.Add(out)
				case "adv":
					if r == nil {
						continue
					}
					r.now = r.now.Add(time.Duration(num(e, "ms")) * time.Millisecond)
					r.eng.Clk.Set(r.now)
					tr.Add(echo(e))
				case "req":
					if r != nil {
						out := r.request(e)
						if out["early"] == true {
							r.answered[str(e, "id")] = true
						}
						tr.Add(out)
					}
				case "resp":
					// a transaction the engine answered itself has no provider response
					if r != nil && !r.answered[str(e, "id")] {
						tr.Add(r.response(e))
					}
				default:
					vh.Die("unknown event %v", e["ev"])
				}
			}
		}
		if prev != nil {
			prev.Close()
		}
		tr.Write(filepath.Join(os.Args[3], fmt.Sprintf("trace-%03d.ndjson", si)))
	}
}
