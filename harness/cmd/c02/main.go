// c02: executes transaction scripts against a real flows-mode engine (streams.Stream built from
// generated YAML: concurrency quotas + Limiter flows that can still answer an admitted request
// early) on the mock clock and records what the engine answered, as NDJSON traces for TLC.
//
//	c02 run <scripts.json> <outdir>
//
// scripts.json: [{"config":{...model constants...}, "files":{...}, "flows":{"f":{"url":"api.test/f","qs":["q"]}},
//
//	"ngc": <number of concurrency quotas = GC goroutines>, "hooks": bool, "histories":[[event,...],...]}, ...]
//
// event: {"ev":"reset","now":t} | {"ev":"adv","d":d} | {"ev":"req","t":id,"flow":f,"early":b} |
//
//	{"ev":"resp","t":id} | {"ev":"err","t":id} | {"ev":"conc","ops":[{"op":"req|resp|err","t":id,"flow":f,"early":b},...]}
//
// One tick = tick_ms milliseconds (1000 / 500 / 250: engine start, admissions and GC passes then fall on
// sub-second clock readings). The clock is advanced tick by tick; after every tick the harness waits until the
// background GC passes that the tick made due have completed (hook cq.gc.done) and re-armed their
// timer (MockClock.PendingTimers), so that no later event races with a background pass.
// Observation: no early-return action = "admit"; early response 429 = "refuse"; early response 200 = "early".
package main

import (
	"fmt"
	"os"
	"path/filepath"
	"runtime"
	"sync"
	"sync/atomic"
	"time"

	"lunar/toolkit-core/verifhook"

	"verifharness/internal/c01eng"
	"verifharness/internal/vh"
)

// tick is the duration of one clock tick of the running script (Script.TickMs; 1 s when absent)
var tick = time.Second

var base = time.Unix(1_700_000_000, 0)

var debug = os.Getenv("VERIF_C02_DEBUG") != ""

type Op struct {
	Op    string `json:"op,omitempty"`
	T     string `json:"t,omitempty"`
	Flow  string `json:"flow,omitempty"`
	Early bool   `json:"early,omitempty"`
}

type Event struct {
	Ev  string `json:"ev"`
	Now int64  `json:"now,omitempty"`
	D   int64  `json:"d,omitempty"`
	Op
	Ops []Op `json:"ops,omitempty"`
	N   int  `json:"n,omitempty"`       // storm: number of simultaneous requests (ids s0..s<n-1>)
	Rel string `json:"rel,omitempty"` // storm: how the admitted ones are ended afterwards: resp | err | none
}

type Flow struct {
	URL string   `json:"url"`
	Qs  []string `json:"qs"`
}

type Script struct {
	Config    map[string]any    `json:"config"`
	Files     map[string]string `json:"files"`
	Flows     map[string]Flow   `json:"flows"`
	NGC       int               `json:"ngc"`
	TickMs    int               `json:"tick_ms"`
	Hooks     bool              `json:"hooks"`
	Histories [][]Event         `json:"histories"`
}

func at(t int64) time.Time { return base.Add(time.Duration(t) * tick) }

type runner struct {
	sc      *Script
	eng     *c01eng.Engine
	gcDone  atomic.Int64
	flowOf  map[string]string
	flowMu  sync.Mutex
	hooks   *vh.Trace
	hooksOn atomic.Bool
}

func (rn *runner) waitFor(what string, cond func() bool) {
	deadline := time.Now().Add(10 * time.Second)
	for !cond() {
		if time.Now().After(deadline) {
			vh.Die("timeout waiting for %s (gc passes done=%d, timers=%d)", what, rn.gcDone.Load(), len(rn.eng.Clk.PendingTimers()))
		}
		time.Sleep(50 * time.Microsecond)
	}
}

// advance moves the mock clock one tick at a time and waits for the background passes to settle.
func (rn *runner) advance(from, d int64) (fired int) {
	for i := int64(1); i <= d; i++ {
		target := at(from + i)
		due := 0
		for _, p := range rn.eng.Clk.PendingTimers() {
			if !p.After(target) {
				due++
			}
		}
		fired += due
		want := rn.gcDone.Load() + int64(due)
		rn.eng.Clk.Set(target)
		rn.waitFor("gc passes", func() bool {
			return rn.gcDone.Load() >= want && len(rn.eng.Clk.PendingTimers()) >= rn.sc.NGC
		})
	}
	return fired
}

func (rn *runner) urlOf(t, flow string) string {
	rn.flowMu.Lock()
	defer rn.flowMu.Unlock()
	if flow != "" {
		rn.flowOf[t] = flow
	} else {
		flow = rn.flowOf[t]
	}
	if f, ok := rn.sc.Flows[flow]; ok {
		return f.URL
	}
	for _, f := range rn.sc.Flows {
		return f.URL
	}
	return "api.test/none"
}

// do executes one operation on the real engine and returns the trace fields describing it.
func (rn *runner) do(o Op) vh.Ev {
	switch o.Op {
	case "req":
		h := map[string]string{}
		if o.Early {
			h["x-early"] = "1"
		}
		res := rn.eng.Request(o.T, "GET", rn.urlOf(o.T, o.Flow), h)
		out := "admit"
		switch {
		case res.Err != "":
			out = "error:" + res.Err
		case res.Early && res.Status == 429:
			out = "refuse"
		case res.Early && res.Status == 200:
			out = "early"
		case res.Early:
			out = fmt.Sprintf("early-status-%d", res.Status)
		}
		return vh.Ev{"t": o.T, "qs": rn.sc.Flows[o.Flow].Qs, "flow": o.Flow, "early": o.Early, "out": out}
	case "resp":
		if e := rn.eng.Response(o.T, "GET", rn.urlOf(o.T, ""), 200, nil); e != "" {
			return vh.Ev{"t": o.T, "error": e}
		}
		return vh.Ev{"t": o.T}
	case "err":
		rn.eng.S.OnError(o.T)
		return vh.Ev{"t": o.T}
	}
	vh.Die("unknown op %q", o.Op)
	return nil
}

func main() {
	vh.Quiet()
	if len(os.Args) != 4 || os.Args[1] != "run" {
		vh.Die("usage: c02 run <scripts.json> <outdir>")
	}
	var scripts []Script
	vh.ReadJSON(os.Args[2], &scripts)
	uid := 0
	for si := range scripts {
		sc := &scripts[si]
		tick = time.Second
		if sc.TickMs > 0 {
			tick = time.Duration(sc.TickMs) * time.Millisecond
		}
		dir, err := c01eng.WriteFiles(sc.Files)
		if err != nil {
			vh.Die("files: %v", err)
		}
		tr := vh.NewTrace()
		cfg := vh.Ev{"ev": "config"}
		for k, v := range sc.Config {
			cfg[k] = v
		}
		tr.Add(cfg)
		rn := &runner{sc: sc, flowOf: map[string]string{}}
		if sc.Hooks {
			rn.hooks = vh.NewTrace()
			rn.hooks.Add(cfg)
		}
		verifhook.SetSink(func(point string, kv ...any) {
			if debug {
				fmt.Fprintln(os.Stderr, "hook", point, kv)
			}
			switch point {
			case "cq.gc.done":
				rn.gcDone.Add(1)
			case "cq.sadd", "cq.srem":
				if rn.hooks != nil {
					e := vh.Ev{"ev": point}
					for i := 0; i+1 < len(kv); i += 2 {
						e[fmt.Sprint(kv[i])] = kv[i+1]
					}
					rn.hooks.Add(e)
				}
			}
		})
		for _, h := range sc.Histories {
			var now int64
			for _, e := range h {
				switch e.Ev {
				case "reset":
					now = e.Now
					rn.eng, err = c01eng.New(dir, at(now), rn.eng)
					if err != nil {
						vh.Die("engine: %v", err)
					}
					rn.flowOf = map[string]string{}
					rn.waitFor("gc timers armed", func() bool { return len(rn.eng.Clk.PendingTimers()) >= sc.NGC })
					if n := len(rn.eng.Clk.PendingTimers()); n != sc.NGC {
						vh.Die("expected %d armed timers after engine start, found %d", sc.NGC, n)
					}
					tr.Add(vh.Ev{"ev": "reset", "now": now})
					if rn.hooks != nil {
						rn.hooks.Add(vh.Ev{"ev": "reset", "now": now})
					}
				case "adv":
					// the engine sees every tick (with its GC passes); the trace gets one event per stretch that ends
					// with a GC pass (that is where slots are reclaimed) and one for the rest
					acc := int64(0)
					flush := func() {
						if acc > 0 {
							tr.Add(vh.Ev{"ev": "adv", "d": acc})
							if rn.hooks != nil {
								rn.hooks.Add(vh.Ev{"ev": "adv", "d": acc})
							}
							acc = 0
						}
					}
					for i := int64(0); i < e.D; i++ {
						fired := rn.advance(now, 1)
						now++
						acc++
						if fired > 0 {
							flush()
						}
					}
					flush()
				case "req", "resp", "err":
					o := e.Op
					o.Op = e.Ev
					ev := rn.do(o)
					ev["ev"] = e.Ev
					tr.Add(ev)
				case "conc":
					var wg sync.WaitGroup
					start := make(chan struct{})
					for _, o := range e.Ops {
						uid++
						wg.Add(1)
						go func(i int, o Op) {
							defer wg.Done()
							<-start
							b := tr.Stamp()
							ev := rn.do(o)
							ev["ev"], ev["id"], ev["op"] = "begin", i, o.Op
							tr.AddAt(b, ev)
							tr.Add(vh.Ev{"ev": "end", "id": i})
						}(uid, o)
					}
					close(start)
					wg.Wait()
				case "storm":
					// e.N goroutines, one request each, on one flow at one instant; one compact event, then the
					// admitted transactions are ended one by one (so that the ids can be presented again)
					ids := make([]string, e.N)
					outs := make([]string, e.N)
					var wg sync.WaitGroup
					var arrived atomic.Int64
					start := make(chan struct{})
					for i := 0; i < e.N; i++ {
						ids[i] = fmt.Sprintf("s%d", i)
						wg.Add(1)
						go func(i int) {
							defer wg.Done()
							<-start
							arrived.Add(1)
							for spins := 0; arrived.Load() < int64(e.N) && spins < 1_000_000; spins++ {
								runtime.Gosched() // all goroutines of the storm reach the real code together
							}
							ev := rn.do(Op{Op: "req", T: ids[i], Flow: e.Flow})
							outs[i] = fmt.Sprint(ev["out"])
						}(i)
					}
					close(start)
					wg.Wait()
					adm := []string{}
					for i, o := range outs {
						switch o {
						case "admit":
							adm = append(adm, ids[i])
						case "refuse":
						default:
							vh.Die("storm: unexpected outcome %q", o)
						}
					}
					tr.Add(vh.Ev{"ev": "storm", "ts": ids, "qs": rn.sc.Flows[e.Flow].Qs, "flow": e.Flow, "adm": adm, "rel": e.Rel})
					for k, t := range adm {
						kind := e.Rel
						if kind == "mixed" {
							kind = []string{"resp", "err"}[k%2]
						}
						if kind == "resp" || kind == "err" {
							ev := rn.do(Op{Op: kind, T: t})
							ev["ev"] = kind
							tr.Add(ev)
						}
					}
				default:
					vh.Die("unknown event %q", e.Ev)
				}
			}
		}
		if rn.eng != nil {
			rn.eng.Close()
		}
		verifhook.SetSink(nil)
		tr.Write(filepath.Join(os.Args[3], fmt.Sprintf("trace-%03d.ndjson", si)))
		if rn.hooks != nil {
			rn.hooks.Write(filepath.Join(os.Args[3], fmt.Sprintf("hooks-%03d.ndjson", si)))
		}
		os.RemoveAll(dir)
	}
}
