//go:build x05plugin

package main

import (
	"fmt"
	"os"
	"time"

	"verifharness/internal/vh"
	"verifharness/internal/x05plugin"
)

var (
	lastWriteMs int64
	lastText    string
)

// a run that starts from the file content the previous run left does not touch the file: every plugin instance started
// earlier in this process still has its refresher running and would reload on a new modification time
func writePolicies(path, text string) int64 {
	if text == lastText && lastWriteMs != 0 {
		return lastWriteMs
	}
	lastText = text
	for time.Now().UnixMilli() <= lastWriteMs+3 { // the plugin compares modification times in milliseconds, strictly
		time.Sleep(time.Millisecond)
	}
	tmp := path + ".tmp"
	if err := os.WriteFile(tmp, []byte(text), 0o644); err != nil {
		vh.Die("write policies: %v", err)
	}
	if err := os.Rename(tmp, path); err != nil {
		vh.Die("rename policies: %v", err)
	}
	lastWriteMs = time.Now().UnixMilli()
	return lastWriteMs
}

func probeGens(h *x05plugin.Host, maxGen int) []int {
	out := []int{}
	tree := h.Tree()
	if tree == nil {
		return out
	}
	for g := 0; g <= maxGen; g++ {
		if r := tree.Lookup(fmt.Sprintf("gen.x05/g%d/probe", g)); r.Match {
			out = append(out, g)
		}
	}
	return out
}

func has(xs []int, g int) bool {
	for _, x := range xs {
		if x == g {
			return true
		}
	}
	return false
}

// the plugin reads the state locations once, when its package is initialised: they are fixed per process (checks/x05.py)
func execPlugin(tr *vh.Trace, fam Family, run Run, ri int, _ string) {
	disc, rem, pol := os.Getenv("DISCOVERY_STATE_LOCATION"), os.Getenv("REMEDY_STATE_LOCATION"), os.Getenv("LUNAR_PROXY_POLICIES_CONFIG")
	if disc == "" || rem == "" || pol == "" {
		vh.Die("plugin mode needs DISCOVERY_STATE_LOCATION, REMEDY_STATE_LOCATION, LUNAR_PROXY_POLICIES_CONFIG")
	}
	os.Remove(disc)
	os.Remove(rem)
	if fam.Flows {
		os.Setenv("LUNAR_STREAMS_ENABLED", "true")
	} else {
		os.Unsetenv("LUNAR_STREAMS_ENABLED")
	}
	writePolicies(pol, knownYAML(fam.Known))
	ref := time.Now().Unix()
	rel := func() int64 { return time.Now().Unix() - ref }
	maxGen := 0
	writeAt := map[int]time.Time{}
	tr.Add(vh.Ev{"ev": "reset", "run": ri})
	start := func() *x05plugin.Host {
		h := x05plugin.NewHost()
		ev := vh.Ev{"ev": "start", "t0": rel()}
		ev["rc"] = h.Init()
		ev["t1"] = rel()
		ev["out"] = project(rem, ref)
		ev["disc"] = discTotals(disc)
		ev["gens"] = probeGens(h, maxGen)
		tr.Add(ev)
		return h
	}
	host := start()
	pos := 0
	for _, st := range run.Steps {
		switch st.Op {
		case "restart":
			host = start()
		case "sleep":
			time.Sleep(time.Duration(st.Ms) * time.Millisecond)
		case "write":
			text := st.Text
			if text == "" {
				text = knownYAML(st.Known)
			}
			if st.Gen > maxGen {
				maxGen = st.Gen
			}
			writePolicies(pol, text)
			writeAt[st.Gen] = time.Now()
			tr.Add(vh.Ev{"ev": "write", "gen": st.Gen, "valid": st.Valid})
		case "await":
			t := time.Now()
			seen := false
			for {
				if has(probeGens(host, maxGen), st.Gen) {
					seen = true
					break
				}
				if time.Since(t) > time.Duration(st.MaxMs)*time.Millisecond {
					break
				}
				time.Sleep(20 * time.Millisecond)
			}
			tr.Add(vh.Ev{"ev": "await", "gen": st.Gen, "seen": seen, "since_write_ms": time.Since(writeAt[st.Gen]).Milliseconds()})
		case "batch":
			recs := fam.Recs[pos : pos+st.N]
			data := chunkOf(recs, pos)
			ev := vh.Ev{"ev": "batch", "from": pos, "n": st.N, "t0": rel()}
			sinceWrite := int64(-1)
			if w, ok := writeAt[maxGen]; ok {
				sinceWrite = time.Since(w).Milliseconds()
			}
			ev["since_write_ms"] = sinceWrite
			gensBefore := probeGens(host, maxGen)
			treeBefore := host.Tree()
			// what that tree answers before the flush: discovery inserts the chunk's URLs into it during the flush, and
			// whether the remedy statistics look a URL up before or after that is not part of the statement (attr0 / attr)
			ev["attr0"] = lookups(treeBefore, recs)
			rc := 0
			if err := guard(func() error { rc = host.Flush(data); return nil }); err != nil {
				ev["err"] = err.Error()
				rc = -1
			}
			ev["rc"] = rc
			ev["t1"] = rel()
			pos += st.N
			ev["out"] = project(rem, ref)
			ev["disc"] = discTotals(disc)
			// the tree handed to this flush is the context's tree when the flush begins; lookups are made on the same
			// object after the flush (discovery has inserted the batch's URLs by then, as it had when remedy.Run looked
			// them up).  If the refresher replaced the tree while the flush ran, which of the two the flush saw is not
			// observable from outside: the event says so ("swapped") and the specification leaves the keys open.
			ev["attr"] = lookups(treeBefore, recs)
			ev["swapped"] = host.Tree() != treeBefore
			ev["gens"] = gensBefore
			tr.Add(ev)
		default:
			vh.Die("plugin mode: unknown step %q", st.Op)
		}
	}
	tr.Add(vh.Ev{"ev": "final"})
}
