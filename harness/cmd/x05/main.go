// x05: executes remedy-statistics scripts against the real aggregation-output-plugin code and records what
// it produced as NDJSON for TLC.  Pure executor: no oracle logic.
//
//	x05 run <cases.json> <outdir>
//
// Two levels (field "mode" of a family):
//
//	direct  remedy.Run on a remedy.State (Initialize on a temp file) with the tree of common.BuildTree and a mock
//	        clock; restart = a new State + Initialize on the same file.
//	plugin  the plugin's own entry points FLBPluginInit / FLBPluginFlushCtx (main.go + tree_update.go of the plugin,
//	        compiled from the working tree into the importable package internal/x05plugin by checks/x05.py - only the
//	        package clause is rewritten) fed with msgpack chunks the way fluent-bit does; discovery.Run and remedy.Run
//	        are reached through the plugin's dispatch, the known-endpoints tree is (re)built by the plugin from the
//	        policies file the script rewrites; restart = FLBPluginInit on a fresh plugin instance, same state files.
//
// cases.json: {"chunks":k,"families":[{"id","mode","flows","threshold","known":[{"m","u"}],"recs":[rec..],"runs":[{"steps":[step..]}]}]}
// rec:  {"k":"ok|raw|nomsg","m","u","h","s","ra":[{"r":"fixed_response","x":["no_op"]}],"pa":[..],"internal":false,"raw":"..."}
// step: {"op":"batch","n":3} | {"op":"restart"} | {"op":"advance","ms":1500} (direct) |
//
//	{"op":"write","gen":1,"valid":true,"known":[{"m","u"}],"text":"..."} | {"op":"await","gen":1,"max_ms":4000} | {"op":"sleep","ms":50}  (plugin)
//
// trace: {"ev":"config"} then per family {"ev":"stream","id","mode","flows","recs":[..]} and per run
//
//	{"ev":"reset"} {"ev":"start","out","disc"} {"ev":"batch","from","n","rc","out","disc","attr0","attr","gens","t0","t1"} ...
//	{"ev":"write",...} {"ev":"await",...} {"ev":"final"}
//
// out = projection of the remedy state file (see project()), disc = totals of the discovery state file.
package main

import (
	"encoding/json"
	"fmt"
	"math"
	"os"
	"path/filepath"
	"sort"
	"strconv"
	"time"

	"lunar/aggregation-plugin/common"
	"lunar/aggregation-plugin/remedy"
	sharedActions "lunar/shared-model/actions"
	sharedConfig "lunar/shared-model/config"
	sharedDiscovery "lunar/shared-model/discovery"
	"lunar/toolkit-core/clock"

	"verifharness/internal/vh"
)

const baseSec = int64(1_700_000_000)

// RatioScale: ratios are reported as round(ratio * RatioScale) (TLC has integers only)
const RatioScale = 100000

// X = the run results in canonical spelling (what the specification sees); Xs = the spelling put on the line (case /
// surrounding blanks are immaterial to the shared model's parsers), X when absent
type RA struct {
	R  string   `json:"r"`
	X  []string `json:"x"`
	Xs []string `json:"xs"`
}

func (a RA) spelled() []string {
	if len(a.Xs) == len(a.X) && len(a.Xs) > 0 {
		return a.Xs
	}
	return a.X
}

type Rec struct {
	K        string `json:"k"`
	M        string `json:"m"`
	U        string `json:"u"`
	H        string `json:"h"`
	S        int    `json:"s"`
	Ra       []RA   `json:"ra"`
	Pa       []RA   `json:"pa"`
	Internal bool   `json:"internal"`
	Raw      string `json:"raw"`
}

type EP struct {
	M string `json:"m"`
	U string `json:"u"`
}

type Step struct {
	Op    string `json:"op"`
	N     int    `json:"n"`
	Ms    int    `json:"ms"`
	Gen   int    `json:"gen"`
	Valid bool   `json:"valid"`
	Known []EP   `json:"known"`
	Text  string `json:"text"`
	MaxMs int    `json:"max_ms"`
}

type Run struct {
	Steps []Step `json:"steps"`
}

type Family struct {
	ID        int    `json:"id"`
	Mode      string `json:"mode"`
	Flows     bool   `json:"flows"`
	Threshold int    `json:"threshold"`
	Known     []EP   `json:"known"`
	Recs      []Rec  `json:"recs"`
	Runs      []Run  `json:"runs"`
}

type Cases struct {
	Families []Family `json:"families"`
	Chunks   int      `json:"chunks"`
}

// ------------------------------------------------------------------------------------------------ projection

func scaled(f float64) int64 {
	x := math.Round(f * RatioScale)
	if math.IsNaN(x) || math.IsInf(x, 0) || x > 2e9 || x < -2e9 {
		return -1
	}
	return int64(x)
}

func num(v any) (float64, bool) {
	f, ok := v.(float64)
	return f, ok
}

func intOf(v any) int64 {
	f, ok := num(v)
	if !ok || f != math.Trunc(f) || math.Abs(f) > 2e9 {
		return -999
	}
	return int64(f)
}

// secOf: "2006-01-02T15:04:05Z" -> seconds since ref; zero = the epoch itself ("no transaction yet")
func secOf(v any, ref int64) (int64, bool) {
	s, _ := v.(string)
	t, err := time.Parse("2006-01-02T15:04:05Z", s)
	if err != nil {
		return -999999, false
	}
	if t.Unix() == 0 {
		return 0, true
	}
	d := t.Unix() - ref
	if d > 2e9 || d < -2e9 {
		d = -999999
	}
	return d, false
}

func sortedKeys(m map[string]any) []string {
	ks := make([]string, 0, len(m))
	for k := range m {
		ks = append(ks, k)
	}
	sort.Strings(ks)
	return ks
}

// project reads the remedy state file the way a user (`remedy_stats`, GET /remedy_stats) sees it - generic JSON, no
// types of the code under test - and flattens it: counts as integers, ratios scaled, times as offsets.
func project(path string, ref int64) vh.Ev {
	b, err := os.ReadFile(path)
	if err != nil {
		return vh.Ev{"exists": false, "ok": false, "rs": []vh.Ev{}, "as": []vh.Ev{}, "min": 0, "max": 0, "minz": true, "maxz": true}
	}
	var top map[string]any
	if err := json.Unmarshal(b, &top); err != nil {
		return vh.Ev{"exists": true, "ok": false, "rs": []vh.Ev{}, "as": []vh.Ev{}, "min": 0, "max": 0, "minz": true, "maxz": true}
	}
	rs := []vh.Ev{}
	if arr, ok := top["remedy_stats"].([]any); ok {
		for _, it := range arr {
			o, _ := it.(map[string]any)
			eps := []vh.Ev{}
			if ea, ok := o["affected_stats_by_endpoint"].([]any); ok {
				for _, e := range ea {
					eo, _ := e.(map[string]any)
					st := []vh.Ev{}
					if sm, ok := eo["count_by_status_code"].(map[string]any); ok {
						for _, code := range sortedKeys(sm) {
							st = append(st, vh.Ev{"code": code, "n": intOf(sm[code])})
						}
					}
					eps = append(eps, vh.Ev{"m": fmt.Sprint(eo["method"]), "u": fmt.Sprint(eo["url"]), "n": intOf(eo["count"]), "st": st})
				}
			}
			sort.Slice(eps, func(i, j int) bool {
				a, b := eps[i], eps[j]
				if a["u"].(string) != b["u"].(string) {
					return a["u"].(string) < b["u"].(string)
				}
				return a["m"].(string) < b["m"].(string)
			})
			ratio, _ := num(o["affected_ratio"])
			rs = append(rs, vh.Ev{"r": fmt.Sprint(o["remedy"]), "a": fmt.Sprint(o["action"]), "n": intOf(o["affected_count"]),
				"ratio": scaled(ratio), "eps": eps})
		}
	}
	sort.Slice(rs, func(i, j int) bool {
		a, b := rs[i], rs[j]
		if a["r"].(string) != b["r"].(string) {
			return a["r"].(string) < b["r"].(string)
		}
		return a["a"].(string) < b["a"].(string)
	})
	as := []vh.Ev{}
	if am, ok := top["remedy_action_stats"].(map[string]any); ok {
		for _, a := range sortedKeys(am) {
			o, _ := am[a].(map[string]any)
			st := []vh.Ev{}
			if sm, ok := o["ratio_by_status_code"].(map[string]any); ok {
				for _, code := range sortedKeys(sm) {
					f, _ := num(sm[code])
					st = append(st, vh.Ev{"code": code, "ratio": scaled(f)})
				}
			}
			ratio, _ := num(o["ratio"])
			as = append(as, vh.Ev{"a": a, "n": intOf(o["count"]), "ratio": scaled(ratio), "st": st})
		}
	}
	mn, mnz := secOf(top["min_time"], ref)
	mx, mxz := secOf(top["max_time"], ref)
	return vh.Ev{"exists": true, "ok": true, "rs": rs, "as": as, "min": mn, "max": mx, "minz": mnz, "maxz": mxz}
}

// discTotals: what the discovery state file accounts for (sum of the endpoint counts)
func discTotals(path string) vh.Ev {
	b, err := os.ReadFile(path)
	if err != nil {
		return vh.Ev{"exists": false, "total": 0, "eps": 0}
	}
	var top map[string]any
	if err := json.Unmarshal(b, &top); err != nil {
		return vh.Ev{"exists": true, "total": -1, "eps": 0}
	}
	total, n := int64(0), 0
	if em, ok := top["endpoints"].(map[string]any); ok {
		for _, v := range em {
			o, _ := v.(map[string]any)
			total += intOf(o["count"])
			n++
		}
	}
	return vh.Ev{"exists": true, "total": total, "eps": n}
}

// lookups: what the real tree answers for every distinct URL of the delivered lines (lookup only, no insertion)
func lookups(tree *common.SimpleURLTree, recs []Rec) []vh.Ev {
	out := []vh.Ev{}
	seen := map[string]bool{}
	for _, r := range recs {
		if r.K != "ok" || seen[r.U] {
			continue
		}
		seen[r.U] = true
		n, ok := "", false
		if tree != nil {
			n, ok = common.StrictNormalizeURL(tree, r.U)
		}
		out = append(out, vh.Ev{"u": r.U, "match": ok, "n": n})
	}
	return out
}

func recEv(r Rec) vh.Ev {
	f := func(x []RA) []vh.Ev {
		o := []vh.Ev{}
		for _, a := range x {
			xs := a.X
			if xs == nil {
				xs = []string{}
			}
			o = append(o, vh.Ev{"r": a.R, "x": xs})
		}
		return o
	}
	return vh.Ev{"k": r.K, "m": r.M, "u": r.U, "h": r.H, "s": r.S, "ra": f(r.Ra), "pa": f(r.Pa), "internal": r.Internal}
}

func knownOf(eps []EP) sharedDiscovery.KnownEndpoints {
	k := sharedDiscovery.KnownEndpoints{}
	for _, e := range eps {
		k.Endpoints = append(k.Endpoints, sharedDiscovery.Endpoint{Method: e.M, URL: e.U})
	}
	return k
}

// ------------------------------------------------------------------------------------------------ direct mode

// toAccessLog builds the decoded record the way the plugin's decoder would have (only kind "ok" exists at this level):
// names are parsed by the shared model's own parsers; a name they refuse cannot be represented and is reported.
func toAccessLog(r Rec, seq int) (common.AccessLog, error) {
	al := common.AccessLog{
		Timestamp: baseSec*1000 + int64(seq), StatusCode: r.S, Method: r.M, Host: r.H, URL: r.U, Internal: r.Internal,
		RequestID:              fmt.Sprintf("req-%d", seq),
		RequestActiveRemedies:  common.RequestActiveRemedies{},
		ResponseActiveRemedies: common.ResponseActiveRemedies{},
	}
	for _, a := range r.Ra {
		rt, err := sharedConfig.ParseRemedyType(a.R)
		if err != nil {
			return al, err
		}
		xs := []sharedActions.RemedyReqRunResult{}
		for _, x := range a.spelled() {
			v, err := sharedActions.ParseRemedyReqRunResult(x)
			if err != nil {
				return al, err
			}
			xs = append(xs, v)
		}
		al.RequestActiveRemedies[rt] = xs
	}
	for _, a := range r.Pa {
		rt, err := sharedConfig.ParseRemedyType(a.R)
		if err != nil {
			return al, err
		}
		xs := []sharedActions.RemedyRespRunResult{}
		for _, x := range a.spelled() {
			v, err := sharedActions.ParseRemedyRespRunResult(x)
			if err != nil {
				return al, err
			}
			xs = append(xs, v)
		}
		al.ResponseActiveRemedies[rt] = xs
	}
	return al, nil
}

func guard(f func() error) (err error) {
	defer func() {
		if r := recover(); r != nil {
			err = fmt.Errorf("panic: %v", r)
		}
	}()
	return f()
}

func execDirect(tr *vh.Trace, fam Family, run Run, ri int, dir string) {
	path := filepath.Join(dir, fmt.Sprintf("remedy-direct-%d.json", fam.ID))
	os.Remove(path)
	tree, err := common.BuildTree(knownOf(fam.Known), fam.Threshold)
	if err != nil {
		vh.Die("BuildTree: %v", err)
	}
	clk := clock.NewMockClock()
	now := int64(0) // ms after base
	clk.Set(time.Unix(baseSec, 0))
	state := &remedy.State{Filepath: path}
	tr.Add(vh.Ev{"ev": "reset", "run": ri})
	ev := vh.Ev{"ev": "start", "t0": 0, "t1": 0}
	if err := guard(state.Initialize); err != nil {
		ev["err"] = err.Error()
	}
	ev["out"] = project(path, baseSec)
	ev["disc"] = vh.Ev{"exists": false, "total": 0, "eps": 0}
	tr.Add(ev)
	pos := 0
	for _, st := range run.Steps {
		switch st.Op {
		case "advance":
			now += int64(st.Ms)
			clk.Set(time.Unix(baseSec, 0).Add(time.Duration(now) * time.Millisecond))
		case "restart":
			state = &remedy.State{Filepath: path}
			ev := vh.Ev{"ev": "start", "t0": now / 1000, "t1": now / 1000}
			if err := guard(state.Initialize); err != nil {
				ev["err"] = err.Error()
			}
			ev["out"] = project(path, baseSec)
			ev["disc"] = vh.Ev{"exists": false, "total": 0, "eps": 0}
			tr.Add(ev)
		case "batch":
			recs := fam.Recs[pos : pos+st.N]
			batch := make([]common.AccessLog, 0, st.N)
			for k, r := range recs {
				al, err := toAccessLog(r, pos+k)
				if err != nil {
					vh.Die("direct mode cannot represent record %d of family %d: %v", pos+k, fam.ID, err)
				}
				batch = append(batch, al)
			}
			ev := vh.Ev{"ev": "batch", "from": pos, "n": st.N, "rc": 1, "t0": now / 1000, "t1": now / 1000}
			if err := guard(func() error { return remedy.Run(state, batch, tree, clk) }); err != nil {
				ev["rc"] = 0
				ev["err"] = err.Error()
			}
			pos += st.N
			ev["out"] = project(path, baseSec)
			ev["disc"] = vh.Ev{"exists": false, "total": 0, "eps": 0}
			ev["attr"] = lookups(tree, recs)
			ev["attr0"] = ev["attr"]
			ev["gens"] = []int{}
			tr.Add(ev)
		default:
			vh.Die("direct mode: unknown step %q", st.Op)
		}
	}
	tr.Add(vh.Ev{"ev": "final"})
}

// ------------------------------------------------------------------------------------------------ msgpack (what fluent-bit hands to a Go output plugin)

func mpStr(b []byte, s string) []byte {
	n := len(s)
	switch {
	case n < 32:
		b = append(b, 0xa0|byte(n))
	case n < 256:
		b = append(b, 0xd9, byte(n))
	case n < 65536:
		b = append(b, 0xda, byte(n>>8), byte(n))
	default:
		b = append(b, 0xdb, byte(n>>24), byte(n>>16), byte(n>>8), byte(n))
	}
	return append(b, s...)
}

// one entry = [timestamp, {"time":..,"service":..,"message":<line>}]
func mpEntry(b []byte, ts uint64, line string, withMessage bool) []byte {
	b = append(b, 0x92, 0xcf)
	for i := 7; i >= 0; i-- {
		b = append(b, byte(ts>>(8*uint(i))))
	}
	if withMessage {
		b = append(b, 0x83)
	} else {
		b = append(b, 0x82)
	}
	b = mpStr(b, "time")
	b = mpStr(b, "Feb  6 15:25:20")
	b = mpStr(b, "service")
	b = mpStr(b, "haproxy[229]")
	if withMessage {
		b = mpStr(b, "message")
		b = mpStr(b, line)
	}
	return b
}

func remediesJSON(x []RA) string {
	s := "{"
	for i, a := range x {
		if i > 0 {
			s += ","
		}
		s += strconv.Quote(a.R) + ":["
		for j, v := range a.spelled() {
			if j > 0 {
				s += ","
			}
			s += strconv.Quote(v)
		}
		s += "]"
	}
	return s + "}"
}

// the access-log line in the field order of the proxy's log-format (rootfs/etc/haproxy/haproxy.cfg)
func logLine(r Rec, seq int) string {
	return fmt.Sprintf(`{ "internal": %v, "request_id": "req-%d", "timestamp":%d, "duration":%d, "total_duration":%d, "method":%s, "url":%s, "host":%s, "path":"/", "status_code":%d, "request_active_remedies":%s, "response_active_remedies":%s, "interceptor":"-", "consumer_tag":"-", "x_lunar_error": "-", "error_in_body": "-" }`,
		r.Internal, seq, time.Now().UnixMilli(), 3+seq%5, 4+seq%7, strconv.Quote(r.M), strconv.Quote(r.U), strconv.Quote(r.H), r.S,
		remediesJSON(r.Ra), remediesJSON(r.Pa))
}

func chunkOf(recs []Rec, from int) []byte {
	b := []byte{}
	for k, r := range recs {
		switch r.K {
		case "ok":
			b = mpEntry(b, uint64(time.Now().Unix()), logLine(r, from+k), true)
		case "raw":
			b = mpEntry(b, uint64(time.Now().Unix()), r.Raw, true)
		case "nomsg":
			b = mpEntry(b, uint64(time.Now().Unix()), "", false)
		default:
			vh.Die("unknown record kind %q", r.K)
		}
	}
	return b
}

func knownYAML(eps []EP) string {
	s := "global:\n  remedies: []\nendpoints:\n"
	if len(eps) == 0 {
		s = "global:\n  remedies: []\nendpoints: []\n"
	}
	for _, e := range eps {
		s += fmt.Sprintf("  - url: %s\n    method: %s\n    remedies: []\n", strconv.Quote(e.U), e.M)
	}
	return s
}

func main() {
	if len(os.Args) != 4 || os.Args[1] != "run" {
		vh.Die("usage: x05 run <cases.json> <outdir>")
	}
	vh.Quiet()
	var cases Cases
	vh.ReadJSON(os.Args[2], &cases)
	out := os.Args[3]
	chunks := cases.Chunks
	if chunks < 1 {
		chunks = 1
	}
	tmp, err := os.MkdirTemp("", "x05-state-")
	if err != nil {
		vh.Die("tmp: %v", err)
	}
	defer os.RemoveAll(tmp)
	traces := make([]*vh.Trace, chunks)
	for i := range traces {
		traces[i] = vh.NewTrace()
		// refresh interval of the plugin (its own environment variable) and the scheduling slack the specification grants
		refresh, _ := strconv.Atoi(os.Getenv("LUNAR_AGGREGATION_TREE_REFRESH_SECS"))
		slack, _ := strconv.Atoi(os.Getenv("X05_SLACK_MS"))
		traces[i].Add(vh.Ev{"ev": "config", "ratio_scale": RatioScale, "refresh_ms": refresh * 1000, "slack_ms": slack})
	}
	runs := 0
	for fi, fam := range cases.Families {
		tr := traces[fi%chunks]
		recs := make([]vh.Ev, 0, len(fam.Recs))
		for _, r := range fam.Recs {
			recs = append(recs, recEv(r))
		}
		tr.Add(vh.Ev{"ev": "stream", "id": fam.ID, "mode": fam.Mode, "flows": fam.Flows, "recs": recs})
		for ri, run := range fam.Runs {
			if fam.Mode == "plugin" {
				execPlugin(tr, fam, run, ri, tmp)
			} else {
				execDirect(tr, fam, run, ri, tmp)
			}
			runs++
		}
	}
	for i, tr := range traces {
		tr.Write(filepath.Join(out, fmt.Sprintf("trace-%03d.ndjson", i)))
	}
	fmt.Printf("{\"families\":%d,\"runs\":%d}\n", len(cases.Families), runs)
}
