//go:build !x05plugin

package main

import "verifharness/internal/vh"

// plugin mode needs the package internal/x05plugin, generated from the plugin's sources by checks/x05.py (tag x05plugin, cgo)
func execPlugin(_ *vh.Trace, _ Family, _ Run, _ int, _ string) {
	vh.Die("plugin mode: build with -tags x05plugin after generating internal/x05plugin (see checks/x05.py)")
}
