// c09: executes throttling scripts against the real StrategyBasedThrottlingPlugin
// (policy mode) and records what it answered, as NDJSON traces for TLC.
//
//	c09 run <scripts.json> <outdir>
//
// scripts.json: [{"config":{...}, "histories":[[event,...],...]}, ...]
// event: {"ev":"reset","now":t} | {"ev":"adv","d":d} | {"ev":"setw","r":..,"w":ticks} | {"ev":"req","r":..,"g":..} |
//
//	{"ev":"conc","reqs":[{"r":..,"g":..},...]}   (handled by concurrent goroutines)
//
// One tick = 500 ms; instants are offset by a base that is a multiple of every window.
package main

import (
	"context"
	"fmt"
	"os"
	"path/filepath"
	"runtime"
	"sync"
	"sync/atomic"
	"time"

	"lunar/engine/actions"
	"lunar/engine/config"
	lunarMessages "lunar/engine/messages"
	"lunar/engine/services/remedies"
	"lunar/engine/utils"
	"lunar/engine/utils/limit"
	"lunar/engine/utils/obfuscation"
	sharedConfig "lunar/shared-model/config"
	"lunar/toolkit-core/clock"
	"lunar/toolkit-core/logging"

	"verifharness/internal/vh"
)

const (
	tick      = 500 * time.Millisecond
	baseTicks = int64(3_400_005_840) // multiple of 9240 = lcm(2..12 even, 14, 22): grid alignment of every window used is preserved
	header    = "X-Group"
)

type Config struct {
	Groups   []string                  `json:"groups"`
	W        map[string]int            `json:"W"` // ticks (even)
	Allowed  map[string]int64          `json:"Allowed"`
	Pct      map[string]map[string]int `json:"Pct"`
	DefBehav map[string]string         `json:"DefBehav"`
	DefPct   map[string]int            `json:"DefPct"`
	Status   map[string]int            `json:"Status,omitempty"`
}

type Req struct {
	R string `json:"r"`
	G string `json:"g"`
}

type Event struct {
	Ev   string `json:"ev"`
	Now  int64  `json:"now,omitempty"`
	D    int64  `json:"d,omitempty"`
	R    string `json:"r,omitempty"`
	G    string `json:"g,omitempty"`
	Wn   int    `json:"w,omitempty"`
	Reqs []Req  `json:"reqs,omitempty"`
	N    int    `json:"n,omitempty"`
	Rnds int    `json:"rounds,omitempty"`
	Pre  int    `json:"pre,omitempty"`
}

type Script struct {
	Config    Config    `json:"config"`
	Histories [][]Event `json:"histories"`
}

func at(t int64) time.Time { return time.Unix(0, 0).Add(time.Duration(baseTicks+t) * tick) }

func remedyOf(c Config, r string) config.ScopedRemedy {
	cfg := &sharedConfig.StrategyBasedThrottlingConfig{
		AllowedRequestCount: c.Allowed[r],
		WindowSizeInSeconds: c.W[r] / 2,
		ResponseStatusCode:  c.Status[r],
	}
	if c.DefBehav[r] != "none" {
		ga := &sharedConfig.GroupQuotaAllocation{
			GroupBy:                     &sharedConfig.GroupBy{HeaderName: header},
			DefaultAllocationPercentage: float64(c.DefPct[r]),
		}
		switch c.DefBehav[r] {
		case "allow":
			ga.Default = "allow"
		case "block":
			ga.Default = "block"
		case "use_default":
			ga.Default = "use_default_allocation"
		case "undefined":
			ga.Default = ""
		}
		for _, g := range c.Groups {
			if p, ok := c.Pct[r][g]; ok && p >= 0 {
				ga.Groups = append(ga.Groups, sharedConfig.QuotaAllocation{
					GroupHeaderValue: g, AllocationPercentage: float64(p),
				})
			}
		}
		cfg.GroupQuotaAllocation = ga
	}
	return config.ScopedRemedy{
		Scope: utils.ScopeEndpoint, Method: "GET", NormalizedURL: "api.test/x",
		Remedy: &sharedConfig.Remedy{
			Name:   r,
			Config: sharedConfig.RemedyConfig{StrategyBasedThrottling: cfg},
		},
	}
}

func goid() uint64 {
	var buf [64]byte
	n := runtime.Stack(buf[:], false)
	var id uint64
	for _, c := range buf[len("goroutine "):n] { // "goroutine 123 [running]:"
		if c < '0' || c > '9' {
			break
		}
		id = id*10 + uint64(c-'0')
	}
	return id
}

// gateClock is the mock clock with one addition: the goroutine named in `hold` is parked inside its next Now() call - AFTER
// the reading was taken - until it is released.  That is a request descheduled right after it looked at the clock: code that
// reads the clock under the lock that protects the window state keeps everybody else out meanwhile; code that reads it
// before taking that lock lets the others run with later readings and then continues with its stale one.
type gateClock struct {
	*clock.MockClock
	hold    atomic.Uint64
	parked  chan struct{}
	release chan struct{}
}

func (c *gateClock) Now() time.Time {
	t := c.MockClock.Now()
	if g := c.hold.Load(); g != 0 && goid() == g && c.hold.CompareAndSwap(g, 0) {
		close(c.parked)
		<-c.release
	}
	return t
}

func (c *gateClock) Since(t time.Time) time.Duration { return c.Now().Sub(t) }
func (c *gateClock) Until(t time.Time) time.Duration { return t.Sub(c.Now()) }

type runner struct {
	cfg    Config
	clk    *gateClock
	plugin *remedies.StrategyBasedThrottlingPlugin
	rem    map[string]config.ScopedRemedy
}

func (rn *runner) fresh(now int64) {
	rn.clk = &gateClock{MockClock: clock.NewMockClock()}
	rn.clk.Set(at(now))
	state := limit.NewRateLimitState(rn.clk, logging.ContextLogger{})
	p, err := remedies.NewStrategyBasedThrottlingPlugin(context.Background(), rn.clk, nil, state,
		obfuscation.Obfuscator{Hasher: obfuscation.MD5Hasher{}})
	if err != nil {
		vh.Die("plugin: %v", err)
	}
	rn.plugin = p
}

func (rn *runner) request(r, g string) string {
	status := rn.cfg.Status[r]
	if status == 0 {
		status = 429
	}
	hdrs := map[string]string{header: g}
	if g == "-" { // the request does not carry the grouping header at all
		hdrs = map[string]string{}
	}
	a, err := rn.plugin.OnRequest(lunarMessages.OnRequest{
		ID: "t", Method: "GET", URL: "api.test/x", Headers: hdrs,
	}, rn.rem[r])
	if err != nil {
		return "error:" + err.Error()
	}
	switch v := a.(type) {
	case *actions.NoOpAction:
		return "pass"
	case *actions.EarlyResponseAction:
		if v.Status != status {
			return fmt.Sprintf("block-status-%d", v.Status)
		}
		return "block"
	default:
		return fmt.Sprintf("other:%T", a)
	}
}

func main() {
	vh.Quiet()
	if len(os.Args) != 4 || os.Args[1] != "run" {
		vh.Die("usage: c09 run <scripts.json> <outdir>")
	}
	var scripts []Script
	vh.ReadJSON(os.Args[2], &scripts)
	id := 0
	for si, sc := range scripts {
		tr := vh.NewTrace()
		w0 := map[string]int{}
		for r, w := range sc.Config.W {
			w0[r] = w
		}
		cfgEv := vh.Ev{"ev": "config", "groups": sc.Config.Groups, "W": w0, "Allowed": sc.Config.Allowed,
			"Pct": sc.Config.Pct, "DefBehav": sc.Config.DefBehav, "DefPct": sc.Config.DefPct}
		if sc.Config.Status != nil {
			cfgEv["Status"] = sc.Config.Status // configured rejection status per remedy (0 / absent = unset = 429)
		}
		tr.Add(cfgEv)
		rn := &runner{cfg: sc.Config, rem: map[string]config.ScopedRemedy{}}
		for r := range sc.Config.W {
			rn.rem[r] = remedyOf(sc.Config, r)
		}
		for _, h := range sc.Histories {
			var now int64
			for _, e := range h {
				switch e.Ev {
				case "reset":
					now = e.Now
					rn.fresh(now)
					for r, w := range w0 {
						rn.cfg.W[r] = w
						rn.rem[r] = remedyOf(rn.cfg, r)
					}
					tr.Add(vh.Ev{"ev": "reset", "now": now})
				case "adv":
					now += e.D
					rn.clk.Set(at(now))
					tr.Add(vh.Ev{"ev": "adv", "d": e.D})
				case "setw":
					// apply_policies with another window length: same remedy name, new configuration
					rn.cfg.W[e.R] = e.Wn
					rn.rem[e.R] = remedyOf(rn.cfg, e.R)
					tr.Add(vh.Ev{"ev": "setw", "r": e.R, "w": e.Wn})
				case "req":
					out := rn.request(e.R, e.G)
					tr.Add(vh.Ev{"ev": "req", "r": e.R, "g": e.G, "out": out})
				case "burst":
					// n requests for one key handled one after the other at the same instant; only the number of passes is recorded
					passes := 0
					odd := ""
					for i := 0; i < e.N; i++ {
						switch out := rn.request(e.R, e.G); out {
						case "pass":
							passes++
						case "block":
						default:
							odd = out
						}
					}
					tr.Add(vh.Ev{"ev": "batch", "kind": "burst", "r": e.R, "g": e.G, "n": e.N, "passes": passes})
					if odd != "" {
						// an answer that is neither a pass nor a rejection with the configured status: reported as what it is
						// (the specification has no such outcome), not a reason to stop
						tr.Add(vh.Ev{"ev": "req", "r": e.R, "g": e.G, "out": odd, "synthetic": true})
					}
				case "storm":
					// n overlapping requests for one key; only the number of passes is recorded
					var wg sync.WaitGroup
					var arrived, passes atomic.Int32
					var odd atomic.Value
					for i := 0; i < e.N; i++ {
						wg.Add(1)
						go func() {
							defer wg.Done()
							arrived.Add(1)
							for spins := 0; arrived.Load() < int32(e.N) && spins < 1_000_000; spins++ {
								runtime.Gosched() // yield: all goroutines of the batch reach the real code together
							}
							switch out := rn.request(e.R, e.G); out {
							case "pass":
								passes.Add(1)
							case "block":
							default:
								odd.Store(out)
							}
						}()
					}
					wg.Wait()
					tr.Add(vh.Ev{"ev": "batch", "kind": "storm", "r": e.R, "g": e.G, "n": e.N, "passes": passes.Load()})
					if o := odd.Load(); o != nil {
						tr.Add(vh.Ev{"ev": "req", "r": e.R, "g": e.G, "out": o.(string), "synthetic": true})
					}
				case "pstorm":
					// `rounds` rounds on ONE key that is already in use: `pre` requests one after the other, then n overlapping
					// requests released together from a busy-wait barrier by goroutines that live for the whole event (no spawn cost,
					// no yield between release and the real code), then the clock moves on by d ticks.  Recorded as the same
					// batch / adv events a burst, a storm and an adv would leave.
					k := e.N
					var phase atomic.Int64
					var done, passes atomic.Int32
					var odd atomic.Value
					var wg sync.WaitGroup
					for i := 0; i < k; i++ {
						wg.Add(1)
						go func() {
							defer wg.Done()
							for r := 1; r <= e.Rnds; r++ {
								for spins := 0; phase.Load() < int64(r); spins++ {
									if spins&0xfff == 0xfff {
										runtime.Gosched()
									}
								}
								switch out := rn.request(e.R, e.G); out {
								case "pass":
									passes.Add(1)
								case "block":
								default:
									odd.Store(out)
								}
								done.Add(1)
							}
						}()
					}
					for r := 1; r <= e.Rnds; r++ {
						if e.Pre > 0 {
							pp := 0
							for i := 0; i < e.Pre; i++ {
								if rn.request(e.R, e.G) == "pass" {
									pp++
								}
							}
							tr.Add(vh.Ev{"ev": "batch", "kind": "burst", "r": e.R, "g": e.G, "n": e.Pre, "passes": pp})
						}
						passes.Store(0)
						done.Store(0)
						phase.Store(int64(r))
						for spins := 0; done.Load() < int32(k); spins++ {
							if spins&0xfff == 0xfff {
								runtime.Gosched()
							}
						}
						tr.Add(vh.Ev{"ev": "batch", "kind": "storm", "r": e.R, "g": e.G, "n": k, "passes": passes.Load()})
						if o := odd.Load(); o != nil {
							tr.Add(vh.Ev{"ev": "req", "r": e.R, "g": e.G, "out": o.(string), "synthetic": true})
							odd = atomic.Value{}
						}
						now += e.D
						rn.clk.Set(at(now))
						tr.Add(vh.Ev{"ev": "adv", "d": e.D})
					}
					wg.Wait()
				case "straddle":
					// request A of (r, g) is parked right after its first look at the clock; the clock moves on by d; n further
					// requests of the same key are made one after the other; A is released when they are through or, if they
					// cannot get through while A is parked (A holds the state's lock), after a short wait; then n more requests.
					rn.clk.parked, rn.clk.release = make(chan struct{}), make(chan struct{})
					id++
					aid := id
					adone := make(chan struct{})
					ab := tr.Stamp()
					go func() {
						defer close(adone)
						rn.clk.hold.Store(goid())
						out := rn.request(e.R, e.G)
						rn.clk.hold.Store(0)
						tr.AddAt(ab, vh.Ev{"ev": "begin", "id": aid, "r": e.R, "g": e.G, "out": out})
						tr.Add(vh.Ev{"ev": "end", "id": aid})
					}()
					select {
					case <-rn.clk.parked:
					case <-adone: // never looked at the clock
					case <-time.After(5 * time.Second):
						vh.Die("straddle: request neither parked nor returned")
					}
					now += e.D
					rn.clk.Set(at(now))
					tr.Add(vh.Ev{"ev": "adv", "d": e.D})
					others := make(chan struct{})
					go func() {
						defer close(others)
						for i := 0; i < e.N; i++ {
							id++
							oid := id
							b := tr.Stamp()
							out := rn.request(e.R, e.G)
							tr.AddAt(b, vh.Ev{"ev": "begin", "id": oid, "r": e.R, "g": e.G, "out": out})
							tr.Add(vh.Ev{"ev": "end", "id": oid})
						}
					}()
					select {
					case <-others:
					case <-time.After(150 * time.Millisecond):
					}
					close(rn.clk.release)
					<-adone
					<-others
					passes := 0
					for i := 0; i < e.N; i++ {
						if rn.request(e.R, e.G) == "pass" {
							passes++
						}
					}
					tr.Add(vh.Ev{"ev": "batch", "kind": "burst", "r": e.R, "g": e.G, "n": e.N, "passes": passes})
				case "conc":
					var wg sync.WaitGroup
					start := make(chan struct{})
					var arrived atomic.Int32
					n := int32(len(e.Reqs))
					for _, q := range e.Reqs {
						id++
						wg.Add(1)
						go func(i int, q Req) {
							defer wg.Done()
							<-start
							// spin barrier: all goroutines enter the real code as simultaneously as possible
							arrived.Add(1)
							for spins := 0; arrived.Load() < n && spins < 1_000_000; spins++ {
								runtime.Gosched() // yield: all goroutines of the batch reach the real code together
							}
							b := tr.Stamp()
							out := rn.request(q.R, q.G)
							tr.AddAt(b, vh.Ev{"ev": "begin", "id": i, "r": q.R, "g": q.G, "out": out})
							tr.Add(vh.Ev{"ev": "end", "id": i})
						}(id, q)
					}
					close(start)
					wg.Wait()
				default:
					vh.Die("unknown event %q", e.Ev)
				}
			}
		}
		tr.Write(filepath.Join(os.Args[3], fmt.Sprintf("trace-%03d.ndjson", si)))
	}
}
