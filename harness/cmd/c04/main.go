// c04: pure executor for C04 (flow execution follows the processor graph) and
// C05 (every accepted configuration runs safely on all traffic).
//
//	c04 run   <cases.json> <out.ndjson>            parent: runs the cases in child processes
//	c04 child <cases.json> <out.ndjson> <case> <tx> [natural]
//
// A case = a configuration directory (flows/*.yaml, quotas/*.yaml given as file
// contents) plus transactions.  The child loads the directory exactly like
// flows-validator / validate_flows / the reload dry-run do
// (validation.NewValidator().WithValidationDir(dir).Validate()), builds an engine
// from an accepted directory and runs every transaction through
// streams.Stream.ExecuteFlow (the streams branch of routing.processRequest /
// processResponse).  The executed processors are observed through the verifhook
// point proc.exec.  Nothing here judges an outcome.
//
// Events (one JSON object per line):
//
//	{"ev":"load","case":id,"outcome":"accepted|rejected|panic|crash","err":..,"init":"ok|error|panic|crash|-"}
//	{"ev":"exec","case":id,"tx":id,"outcome":"ok|error|panic|overlong|crash","seq":[{flow,key,dir,out}..],"steps":n,..}
//
// A fatal error of the Go runtime (stack overflow) kills the child; the parent
// turns the operation that was in progress into an event with outcome "crash"
// and restarts a child behind it.
package main

import (
	"bufio"
	"context"
	"encoding/base64"
	"encoding/json"
	"fmt"
	"os"
	"os/exec"
	"path/filepath"
	"runtime/debug"
	"strconv"
	"strings"
	"sync/atomic"
	"time"

	lunar_messages "lunar/engine/messages"
	"lunar/engine/routing"
	"lunar/engine/streams"
	stream_config "lunar/engine/streams/config"
	lunar_context "lunar/engine/streams/lunar-context"
	public_types "lunar/engine/streams/public-types"
	stream_types "lunar/engine/streams/types"
	"lunar/engine/streams/validation"
	"lunar/engine/utils"
	"lunar/engine/utils/environment"
	context_manager "lunar/toolkit-core/context-manager"
	"lunar/toolkit-core/verifhook"

	"verifharness/internal/vh"
)

type Tx struct {
	ID        string            `json:"id"`
	Dir       string            `json:"dir"` // req | res
	Method    string            `json:"method"`
	URL       string            `json:"url"`
	Headers   map[string]string `json:"headers"`
	HeaderRaw string            `json:"headers_raw_b64,omitempty"` // raw header blob as HAProxy sends it (base64)
	BodyB64   string            `json:"body_b64,omitempty"`
	Status    int               `json:"status,omitempty"`
	Full      bool              `json:"full,omitempty"`
	NoScheme  bool              `json:"no_scheme,omitempty"` // the message carries no scheme argument
	Pre       []Tx              `json:"pre,omitempty"` // unobserved warm-up transactions run before this one
}

type Case struct {
	ID    string            `json:"id"`
	Files map[string]string `json:"files"`
	Txs   []Tx              `json:"txs"`
	Limit int               `json:"limit"` // executor safety limit on processor executions per transaction
}

type step struct {
	Flow string `json:"flow"`
	Key  string `json:"key"`
	Dir  string `json:"dir"`
	Out  string `json:"out"`
}

type overlong struct{}

const watchdog = 90 * time.Second

var (
	cur      []step
	curLimit int
	natural  bool
)

func sink(point string, kv ...any) {
	if point != "proc.exec" {
		return
	}
	var s step
	for i := 0; i+1 < len(kv); i += 2 {
		k, _ := kv[i].(string)
		v := fmt.Sprint(kv[i+1])
		switch k {
		case "flow":
			s.Flow = v
		case "key":
			s.Key = v
		case "dir":
			s.Dir = v
		case "out":
			s.Out = v
		}
	}
	if len(cur) <= curLimit+2 {
		cur = append(cur, s)
	} else {
		cur[len(cur)-1] = s
	}
	nsteps++
	// natural mode lets a runaway walk meet its own fate (stack overflow) but not for ever
	if (!natural && nsteps > curLimit) || nsteps > 2_000_000 {
		panic(overlong{})
	}
}

var nsteps int

func main() {
	if len(os.Args) < 4 {
		vh.Die("usage: c04 run|child <cases.json> <out.ndjson> ...")
	}
	switch os.Args[1] {
	case "run":
		parent(os.Args[2], os.Args[3], len(os.Args) > 4 && os.Args[4] == "natural")
	case "child":
		ci, _ := strconv.Atoi(os.Args[4])
		ti, _ := strconv.Atoi(os.Args[5])
		natural = len(os.Args) > 6 && os.Args[6] == "natural"
		child(os.Args[2], os.Args[3], ci, ti)
	default:
		vh.Die("unknown mode %s", os.Args[1])
	}
}

// ---------------------------------------------------------------- parent

func parent(casesPath, outPath string, nat bool) {
	var cases []Case
	vh.ReadJSON(casesPath, &cases)
	os.Remove(outPath)
	base := outPath + ".dirs"
	if err := os.MkdirAll(base, 0o755); err != nil {
		vh.Die("mkdir %s: %v", base, err)
	}
	defer os.RemoveAll(base)
	ci, ti := 0, -1 // ti = -1: start with the load of case ci
	self, _ := os.Executable()
	for ci < len(cases) {
		args := []string{"child", casesPath, outPath, strconv.Itoa(ci), strconv.Itoa(ti)}
		if nat {
			args = append(args, "natural")
		}
		cmd := exec.Command(self, args...)
		cmd.Env = append(os.Environ(), "C04_TMP="+base)
		var stderr strings.Builder
		cmd.Stderr = &limitedWriter{b: &stderr, max: 4000}
		// watchdog: a child that writes nothing for a minute is stuck in the operation it announced last
		var stuck atomic.Bool
		err := cmd.Start()
		if err == nil {
			done := make(chan struct{})
			go func() {
				last, since := int64(-1), time.Now()
				for {
					select {
					case <-done:
						return
					case <-time.After(2 * time.Second):
					}
					if fi, e := os.Stat(outPath); e == nil && fi.Size() != last {
						last, since = fi.Size(), time.Now()
					} else if time.Since(since) > watchdog {
						stuck.Store(true)
						cmd.Process.Kill()
						return
					}
				}
			}()
			err = cmd.Wait()
			close(done)
		}
		if err == nil {
			return
		}
		if stuck.Load() {
			stderr.Reset()
			stderr.WriteString(fmt.Sprintf("no return within %s: killed by the executor's watchdog", watchdog))
		}
		os.RemoveAll(base) // what a killed child left behind
		os.MkdirAll(base, 0o755)
		// the child died: find the operation that was in progress
		b, open := lastBegin(outPath)
		if !open {
			os.RemoveAll(base)
			vh.Die("child failed without an operation in progress: %v\n%s", err, stderr.String())
		}
		detail := firstLines(stderr.String(), 3)
		f, _ := os.OpenFile(outPath, os.O_APPEND|os.O_WRONLY, 0o644)
		var ev vh.Ev
		if b.Op == "load" || b.Op == "init" {
			ev = vh.Ev{"ev": "load", "case": cases[b.Case].ID, "outcome": "crash", "err": detail, "init": "-"}
			if b.Op == "init" {
				ev["outcome"] = "accepted"
				ev["init"] = "crash"
			}
			ci, ti = b.Case+1, -1
		} else {
			ev = vh.Ev{"ev": "exec", "case": cases[b.Case].ID, "tx": cases[b.Case].Txs[b.Tx].ID, "outcome": "crash",
				"err": detail, "seq": []step{}, "steps": -1}
			ci, ti = b.Case, b.Tx+1
		}
		line, _ := json.Marshal(ev)
		f.Write(append(line, '\n'))
		f.Close()
	}
}

type limitedWriter struct {
	b   *strings.Builder
	max int
}

func (w *limitedWriter) Write(p []byte) (int, error) {
	if w.b.Len() < w.max {
		n := w.max - w.b.Len()
		if n > len(p) {
			n = len(p)
		}
		w.b.Write(p[:n])
	}
	return len(p), nil
}

func firstLines(s string, n int) string {
	var out []string
	for _, l := range strings.Split(s, "\n") {
		l = strings.TrimSpace(l)
		if l == "" {
			continue
		}
		out = append(out, l)
		if len(out) == n {
			break
		}
	}
	return strings.Join(out, " | ")
}

type begin struct {
	Ev   string `json:"ev"`
	Op   string `json:"op"`
	Case int    `json:"ci"`
	Tx   int    `json:"ti"`
}

// lastBegin returns the last "begin" marker when it is the last line of the file.
func lastBegin(path string) (begin, bool) {
	f, err := os.Open(path)
	if err != nil {
		return begin{}, false
	}
	defer f.Close()
	var last string
	sc := bufio.NewScanner(f)
	sc.Buffer(make([]byte, 1<<20), 1<<26)
	for sc.Scan() {
		if t := strings.TrimSpace(sc.Text()); t != "" {
			last = t
		}
	}
	var b begin
	if json.Unmarshal([]byte(last), &b) != nil || b.Ev != "begin" {
		return begin{}, false
	}
	return b, true
}

// ----------------------------------------------------------------- child

type writer struct{ f *os.File }

func (w *writer) put(ev vh.Ev) {
	b, err := json.Marshal(ev)
	if err != nil {
		vh.Die("marshal: %v", err)
	}
	if _, err := w.f.Write(append(b, '\n')); err != nil {
		vh.Die("write: %v", err)
	}
}

func child(casesPath, outPath string, ci0, ti0 int) {
	debug.SetMaxStack(64 << 20)
	vh.Quiet()
	var cases []Case
	vh.ReadJSON(casesPath, &cases)
	if os.Getenv("LUNAR_PROXY_PROCESSORS_DIRECTORY") == "" {
		environment.SetProcessorsDirectory(filepath.Join(os.Getenv("VERIF_REPO"),
			"proxy/src/services/lunar-engine/streams/processors/registry"))
	}
	f, err := os.OpenFile(outPath, os.O_APPEND|os.O_CREATE|os.O_WRONLY, 0o644)
	if err != nil {
		vh.Die("open %s: %v", outPath, err)
	}
	w := &writer{f}
	verifhook.SetSink(sink)
	// configuration directories live next to the output file (the run's scratch area); the parent removes them
	tmp, err := os.MkdirTemp(os.Getenv("C04_TMP"), "c04-")
	if err != nil {
		vh.Die("tmp: %v", err)
	}
	defer os.RemoveAll(tmp)
	var cancel context.CancelFunc
	for ci := ci0; ci < len(cases); ci++ {
		c := cases[ci]
		dir := filepath.Join(tmp, fmt.Sprintf("c%d", ci))
		writeFiles(dir, c.Files)
		resumed := ci == ci0 && ti0 >= 0
		if cancel != nil {
			cancel()
		}
		ctx, cn := context.WithCancel(context.Background())
		cancel = cn
		cm := context_manager.Get()
		cm.WithContext(ctx)
		cm.SetMockClock()
		cm.GetMockClock().Set(time.Unix(1_700_000_000, 0))

		accepted := true
		if !resumed {
			w.put(vh.Ev{"ev": "begin", "op": "load", "ci": ci, "ti": -1})
			outcome, msg := guarded(func() error {
				return validation.NewValidator().WithValidationDir(dir).Validate()
			})
			switch outcome {
			case "ok":
			case "error":
				accepted = false
				w.put(vh.Ev{"ev": "load", "case": c.ID, "outcome": "rejected", "err": msg, "init": "-"})
			default:
				accepted = false
				w.put(vh.Ev{"ev": "load", "case": c.ID, "outcome": "panic", "err": msg, "init": "-"})
			}
		}
		if !accepted {
			os.RemoveAll(dir)
			continue
		}
		// an accepted directory must initialise: build the engine that serves the transactions
		var eng *streams.Stream
		if !resumed {
			w.put(vh.Ev{"ev": "begin", "op": "init", "ci": ci, "ti": -1})
		}
		outcome, msg := guarded(func() error {
			s, err := streams.NewValidationStream(dir)
			if err != nil {
				return err
			}
			if err := s.Initialize(); err != nil {
				return err
			}
			eng = s
			return nil
		})
		if !resumed {
			w.put(vh.Ev{"ev": "load", "case": c.ID, "outcome": "accepted", "err": msg, "init": outcome})
		}
		if outcome != "ok" {
			os.RemoveAll(dir)
			continue
		}
		shared := lunar_context.NewMemoryState[[]byte]()
		start := 0
		if resumed {
			start = ti0
		}
		curLimit = c.Limit
		if curLimit <= 0 {
			curLimit = 1000
		}
		for ti := start; ti < len(c.Txs); ti++ {
			tx := c.Txs[ti]
			w.put(vh.Ev{"ev": "begin", "op": "exec", "ci": ci, "ti": ti})
			for _, p := range tx.Pre {
				cur, nsteps = nil, 0
				guarded(func() error { _, err := runTx(eng, shared, p); return err })
			}
			cur, nsteps = nil, 0
			var acts *stream_config.StreamActions
			outcome, msg := guarded(func() error {
				a, err := runTx(eng, shared, tx)
				acts = a
				return err
			})
			seq := cur
			if seq == nil {
				seq = []step{}
			}
			ev := vh.Ev{"ev": "exec", "case": c.ID, "tx": tx.ID, "outcome": outcome, "err": msg, "seq": seq, "steps": nsteps}
			if acts != nil {
				nEarly, nReq, nRes := 0, 0, 0
				if acts.Request != nil {
					nReq = len(acts.Request.Actions)
					for _, a := range acts.Request.Actions {
						if !utils.IsInterfaceNil(a) && a.IsEarlyReturnType() {
							nEarly++
						}
					}
				}
				if acts.Response != nil {
					nRes = len(acts.Response.Actions)
				}
				ev["n_req_actions"], ev["n_res_actions"], ev["n_early"] = nReq, nRes, nEarly
			}
			w.put(ev)
			cur = nil
		}
		os.RemoveAll(dir)
	}
	if cancel != nil {
		cancel()
	}
}

// guarded runs f; a panic is an observation ("panic", or "overlong" when the step limit stopped the walk).
func guarded(f func() error) (outcome, msg string) {
	defer func() {
		if r := recover(); r != nil {
			if _, ok := r.(overlong); ok {
				outcome, msg = "overlong", "processor executions exceeded the executor limit"
				return
			}
			outcome, msg = "panic", fmt.Sprint(r)+" @ "+panicSite()
		}
	}()
	if err := f(); err != nil {
		return "error", err.Error()
	}
	return "ok", ""
}

// panicSite names the first frames of the panicking goroutine inside the engine (file:line), for the witness.
func panicSite() string {
	var out []string
	for _, l := range strings.Split(string(debug.Stack()), "\n") {
		l = strings.TrimSpace(l)
		if strings.Contains(l, "lunar-engine/") && strings.Contains(l, ".go:") {
			if i := strings.Index(l, "lunar-engine/"); i >= 0 {
				l = l[i+len("lunar-engine/"):]
			}
			if j := strings.Index(l, " "); j >= 0 {
				l = l[:j]
			}
			out = append(out, l)
			if len(out) == 3 {
				break
			}
		}
	}
	return strings.Join(out, " < ")
}

func writeFiles(dir string, files map[string]string) {
	for _, sub := range []string{"flows", "quotas", "path_params"} {
		if err := os.MkdirAll(filepath.Join(dir, sub), 0o755); err != nil {
			vh.Die("mkdir: %v", err)
		}
	}
	for rel, content := range files {
		p := filepath.Join(dir, rel)
		if err := os.MkdirAll(filepath.Dir(p), 0o755); err != nil {
			vh.Die("mkdir: %v", err)
		}
		if err := os.WriteFile(p, []byte(content), 0o644); err != nil {
			vh.Die("write: %v", err)
		}
	}
}

// runTx mirrors the streams branch of routing.processRequest / processResponse.
func runTx(eng *streams.Stream, shared public_types.SharedStateI[[]byte], tx Tx) (*stream_config.StreamActions, error) {
	// readRequestArgs / readResponseArgs: the header block HAProxy sends is parsed by utils.ParseHeaders and its result
	// becomes the transaction's header map as it is; "headers" of the case is a shorthand for a well-formed block
	var headers map[string]string
	if tx.HeaderRaw != "" {
		raw, _ := base64.StdEncoding.DecodeString(tx.HeaderRaw)
		s := string(raw)
		headers = utils.ParseHeaders(&s)
	} else {
		var lines []string
		for k, v := range tx.Headers {
			lines = append(lines, k+": "+v+"\r\n") // req.hdrs: every header line ends with CRLF
		}
		s := strings.Join(lines, "")
		headers = utils.ParseHeaders(&s)
	}
	var body []byte
	if tx.BodyB64 != "" {
		body, _ = base64.StdEncoding.DecodeString(tx.BodyB64)
	}
	now := context_manager.Get().GetClock().Now()
	if tx.Dir == "req" {
		name := "lunar-on-request"
		if tx.Full {
			name = lunar_messages.LunarFullRequest
		}
		// HAProxy sends url (host + path), path and query as separate arguments
		path, query := "", ""
		if i := strings.Index(tx.URL, "/"); i >= 0 {
			path = tx.URL[i:]
		}
		if i := strings.Index(path, "?"); i >= 0 {
			path, query = path[:i], path[i+1:]
		}
		scheme := "https"
		if tx.NoScheme {
			scheme = ""
		}
		args := lunar_messages.OnRequest{
			LunarName: name, ID: tx.ID, SequenceID: tx.ID, Method: tx.Method, Scheme: scheme, URL: tx.URL,
			Path: path, Query: query, Headers: headers, RawBody: body, Time: now,
		}
		api := stream_types.NewRequestAPIStream(args, shared)
		if args.IsFullRequest() {
			defer api.StoreRequest()
		}
		acts := &stream_config.StreamActions{Request: &stream_config.RequestStream{}}
		err := eng.ExecuteFlow(api, acts)
		if err == nil {
			// processRequest: the actions of the flow are folded into the SPOE reply on the message's own arguments
			_ = routing.VerifGetSPOEReqActions(args, acts.Request.Actions)
		}
		return acts, err
	}
	name := "lunar-on-response"
	if tx.Full {
		name = lunar_messages.LunarFullResponse
	}
	args := lunar_messages.OnResponse{
		LunarName: name, ID: tx.ID, SequenceID: tx.ID, Method: tx.Method, URL: tx.URL, Status: tx.Status,
		Headers: headers, RawBody: body, Time: now,
	}
	api := stream_types.NewResponseAPIStream(args, shared)
	if args.IsFullResponse() {
		defer api.DiscardRequest()
	}
	acts := &stream_config.StreamActions{Response: &stream_config.ResponseStream{}}
	err := eng.ExecuteFlow(api, acts)
	if err == nil {
		_ = routing.VerifGetSPOERespActions(args, acts.Response.Actions)
	}
	return acts, err
}
