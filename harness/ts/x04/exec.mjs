// X04 executor for the TypeScript interceptor (pure: drives the real classes, records what they answered; no oracle logic).
//
//   node --experimental-transform-types --import register.mjs exec.mjs tree|scripts|trie|filter <in.json> <out.ndjson>
//
// Same script / trace formats as py/c19_exec.py and harness/java/x04 (a trace is a tree of observed events).
//
// What runs: the REAL sources interceptors/lunar-ts-interceptor/src/*.ts of $VERIF_REPO, loaded unchanged by node's type
// stripping (loader.mjs: extensionless imports, 'winston' -> no-op stand-in).  One event "call" = one application request
// through the REAL fetch hook (LunarInterceptor.fetchHookFunc / fetchHandler installed over globalThis.fetch by
// getInterceptor()); the "network" under the hook is the scripted fetch below, which plays the gateway, the provider and what an
// application can do to its own request (abort it).  FailSafe is constructed as in production (new FailSafe() reading
// LUNAR_ENTER_COOLDOWN_AFTER_ATTEMPTS / LUNAR_EXIT_COOLDOWN_AFTER_SEC) by constructing a new LunarInterceptor per history;
// Date.now is the scripted clock.  The handshake LunarConnect performs at start-up is answered by a loopback HTTP server.
import http from 'node:http';
import https from 'node:https';
import fs from 'node:fs';

const REPO = process.env.VERIF_REPO || '/repo';
const SRC = REPO + '/interceptors/lunar-ts-interceptor/src/';
const T0 = 1_700_000_000_000;
const DEST_URL = 'https://api.pub.com/v1/items?page=2';

for (const k of Object.keys(process.env)) if (k.startsWith('LUNAR_')) delete process.env[k];
process.env.LUNAR_INTERCEPTOR_LOG_LEVEL = 'error';

// ------------------------------------------------------------------ clock
let nowMs = T0;
const realDateNow = Date.now;
Date.now = () => nowMs;

// ------------------------------------------------------------------ scripted network
const plans = new Map();        // call id -> plan
let callSeq = 0;
let proxyHost = null, proxyPort = null;

class AppError extends Error {}

function appException(kind) {
  const k = kind.endsWith('+') ? kind.slice(0, -1) : kind;
  if (k === 'io') return new DOMException('This operation was aborted', 'AbortError');     // the application aborted its request
  return new AppError('application failure while the request was in flight');
}

function headerOf(input, init, name) {
  if (input instanceof Request) { const v = input.headers.get(name); if (v !== null) return v; }
  if (init && init.headers) {
    const h = init.headers instanceof Headers ? init.headers : new Headers(init.headers);
    const v = h.get(name); if (v !== null) return v;
  }
  return null;
}

function respond(status, headers, via) {
  const r = new Response(JSON.stringify({ via }), { status, headers: { 'content-type': 'application/json', ...headers } });
  r.x04via = via;
  return r;
}

async function scriptedFetch(input, init) {
  const id = headerOf(input, init, 'x-x04-call');
  const pl = plans.get(id);
  if (!pl) throw new Error('scripted fetch outside of a scripted call: ' + id);
  const url = new URL(input instanceof Request ? input.url : String(input));
  if (headerOf(input, init, 'x-lunar-allow') !== null) pl.allowHeaderReachedNetwork = true;
  const gateway = url.hostname === proxyHost && String(url.port) === String(proxyPort);
  if (!gateway) {
    pl.directLegs++;
    // "+": the application's failure shows again when the request is sent directly after its gateway leg
    if (pl.out === 'appexc' && pl.kind.endsWith('+') && pl.gatewaySeen) throw pl.thrown;
    return respond(200, {}, 'direct');
  }
  if (headerOf(input, init, 'x-lunar-host') === null) throw new Error('gateway leg without x-lunar-host');
  pl.gatewaySeen = true;
  if (pl.gate) await pl.gate;             // the leg stays in flight until the script ends it
  switch (pl.out) {
    case 'ok':
      return respond(200, pl.kind === 'seq' ? { 'x-lunar-sequence-id': 'abc-1' } : {}, 'gateway');
    case 'gwerr': {
      if (pl.kind === 'conn' || pl.kind === '') { const e = new TypeError('fetch failed'); e.cause = new Error('connect ECONNREFUSED'); throw e; }
      if (pl.kind === 'timeout') throw new DOMException('The operation was aborted due to timeout', 'TimeoutError');
      if (pl.kind === 'unknownhost') { const e = new TypeError('fetch failed'); e.cause = new Error('getaddrinfo ENOTFOUND'); throw e; }
      const parts = pl.kind.split('/');          // proxy/<header name as sent>/<code>
      return respond(503, { [parts[1] || 'x-lunar-error']: parts[2] || '2', 'x-lunar-sequence-id': 'abc' }, 'gateway');
    }
    case 'appexc':
      throw pl.thrown;
    default:
      throw new Error(`a '${pl.out}' call reached the gateway leg`);
  }
}

// ------------------------------------------------------------------ the interceptor
const originals = { httpRequest: http.request, httpGet: http.get, httpsRequest: https.request, httpsGet: https.get };
let interceptorModule = null, LunarInterceptorClass = null;

async function startHandshakeServer() {
  const srv = http.createServer((req, res) => {
    res.writeHead(200, { 'content-type': 'application/json' });
    res.end(JSON.stringify({ managed: false }));
  });
  await new Promise((ok) => srv.listen(0, '127.0.0.1', ok));
  srv.unref();
  return srv;
}

async function bootstrap() {
  const srv = await startHandshakeServer();
  proxyHost = '127.0.0.1'; proxyPort = 8000;
  process.env.LUNAR_PROXY_HOST = `${proxyHost}:${proxyPort}`;
  process.env.LUNAR_HANDSHAKE_PORT = String(srv.address().port);
  globalThis.fetch = scriptedFetch;
  interceptorModule = await import(SRC + 'interceptor.ts');
  const first = interceptorModule.getInterceptor();
  LunarInterceptorClass = first.constructor;
  const { LunarConnect } = await import(SRC + 'lunarConnect.ts');
  const valid = await LunarConnect.getInstance().isConnectionValid();
  if (!valid) throw new Error('handshake with the loopback stand-in failed');
}

/** a new LunarInterceptor (and with it a new FailSafe reading the environment), hooks installed over the scripted network */
function freshInterceptor(cfg) {
  if (cfg.default) {
    delete process.env.LUNAR_ENTER_COOLDOWN_AFTER_ATTEMPTS;
    delete process.env.LUNAR_EXIT_COOLDOWN_AFTER_SEC;
  } else {
    process.env.LUNAR_ENTER_COOLDOWN_AFTER_ATTEMPTS = String(cfg.N);
    process.env.LUNAR_EXIT_COOLDOWN_AFTER_SEC = String(cfg.C);
  }
  http.request = originals.httpRequest; http.get = originals.httpGet; https.request = originals.httpsRequest; https.get = originals.httpsGet;
  globalThis.fetch = scriptedFetch;
  LunarInterceptorClass._instance = null;
  const it = interceptorModule.getInterceptor();
  if (globalThis.fetch === scriptedFetch) throw new Error('the fetch hook was not installed');
  const failSafe = it._failSafe;
  const reads = [];
  const orig = failSafe.stateOk.bind(failSafe);
  failSafe.stateOk = () => { const r = orig(); reads.push(r); return r; };      // observer: what every read answered
  return { it, failSafe, reads };
}

class World {
  constructor(cfg) {
    const unit = cfg.unit || 1;
    if (1000 % unit !== 0) throw new Error('unit must divide 1000: ' + unit);
    this.tickMs = 1000 / unit;
    nowMs = T0 + (cfg.phase || 0) * this.tickMs;
    Object.assign(this, freshInterceptor(cfg));
    this.executions = 0;
  }

  blank(ev) { return { ev, N: 0, C: 0, d: 0, read: false, out: '', kind: '', ans: true, raised: 'none', via: '' }; }

  /** start one application request through the hooked fetch; returns { plan, promise, readsBefore } */
  start(out, kind, held) {
    const id = 'c' + (++callSeq);
    const pl = { id, out, kind: kind || '', gatewaySeen: false, directLegs: 0, allowHeaderReachedNetwork: false, thrown: null, gate: null, open: null };
    if (out === 'appexc') pl.thrown = appException(pl.kind);
    if (held) pl.gate = new Promise((ok) => { pl.open = ok; });
    plans.set(id, pl);
    const headers = { accept: '*/*', 'x-x04-call': id };
    if (out === 'skip') headers['x-lunar-allow'] = 'false';        // the traffic filter keeps this call off the gateway
    const readsBefore = this.reads.length;
    const promise = globalThis.fetch(DEST_URL, { method: 'GET', headers }).then((res) => ({ res }), (err) => ({ err }));
    return { pl, promise, readsBefore };
  }

  async finish(call, read) {
    const { pl, promise, readsBefore } = call;
    if (pl.open) pl.open();
    const { res, err } = await promise;
    plans.delete(pl.id);
    this.executions++;
    const rec = this.blank('call');
    rec.read = read; rec.out = pl.out; rec.kind = pl.kind;
    const firstRead = this.reads.length > readsBefore ? this.reads[readsBefore] : true;
    if (read) rec.ans = pl.out === 'skip' ? firstRead : pl.gatewaySeen;
    else if (!pl.gatewaySeen) throw new Error('a call reported as already in flight was not started through the gateway');
    rec.routed = pl.gatewaySeen;
    rec.raised = err === undefined ? 'none' : (err === pl.thrown ? 'same' : 'other');
    if (err !== undefined && err !== pl.thrown) rec.raised_type = String(err && err.name);
    rec.via = res ? (res.x04via || '') : '';
    rec.direct_legs = pl.directLegs;
    rec.allow_header_leaked = pl.allowHeaderReachedNetwork;
    return rec;
  }

  /** a whole history; events with read = false are the ends of calls STARTED at the beginning of the history (fresh breaker) whose
   *  gateway leg stays in flight (a pending promise of the scripted fetch) until their event */
  async history(events) {
    const held = new Map();
    for (let i = events.length - 1; i >= 0; i--) {          // same start order as the Java executor: the last one first
      const e = events[i];
      if (e.ev === 'call' && e.read === false) held.set(i, this.start(e.out, e.kind, true));
    }
    if (held.size) await new Promise((ok) => setImmediate(ok));      // let every started call reach its gateway leg
    const recs = [];
    for (let i = 0; i < events.length; i++) {
      const e = events[i];
      if (e.ev === 'adv') {
        nowMs += e.d * this.tickMs;
        const rec = this.blank('adv'); rec.d = e.d; recs.push(rec);
      } else if (e.ev === 'ask') {
        this.executions++;
        const rec = this.blank('ask'); rec.ans = Boolean(this.it._failSafe.stateOk()); recs.push(rec);
      } else if (e.ev === 'call') {
        if (e.read === false) recs.push(await this.finish(held.get(i), false));
        else recs.push(await this.finish(this.start(e.out, e.kind, false), true));
      } else throw new Error('unknown event ' + JSON.stringify(e));
    }
    return recs;
  }
}

function resetRec(cfg) {
  const dflt = Boolean(cfg.default);
  const n = dflt ? 5 : cfg.N, c = dflt ? 10 : cfg.C, unit = cfg.unit || 1;
  return { ev: 'reset', N: n, C: c * unit, d: 0, read: false, out: '', kind: '', ans: true, raised: 'none', via: '',
           default: dflt, unit, phase: cfg.phase || 0, Csec: c, impl: 'ts' };
}

// ------------------------------------------------------------------ output tree
function sorted(o) {
  if (Array.isArray(o)) return o.map(sorted);
  if (o && typeof o === 'object') { const r = {}; for (const k of Object.keys(o).sort()) r[k] = sorted(o[k]); return r; }
  return o;
}

class Out {
  constructor(path) {
    this.path = path;
    this.nodes = [{ k: [], ev: 'root', N: 0, C: 0, d: 0, read: false, out: '', kind: '', ans: true, raised: 'none', via: '' }];
  }
  add(parent, rec) { const r = { ...rec, k: [] }; this.nodes.push(r); const id = this.nodes.length; this.nodes[parent - 1].k.push(id); return id; }
  write() { fs.writeFileSync(this.path, this.nodes.map((n) => JSON.stringify(sorted(n))).join('\n') + '\n'); }
}

const sameObs = (a, b) => a.ans === b.ans && a.raised === b.raised && a.via === b.via;

async function cmdTree(specPath, outPath) {
  const spec = JSON.parse(fs.readFileSync(specPath, 'utf8'));
  const { alphabet, depth } = spec, k = alphabet.length;
  const out = new Out(outPath);
  let execs = 0, nondet = 0;
  for (const cfg of spec.configs) {
    const root = out.add(1, resetRec(cfg));
    const ids = new Array(depth + 1).fill(0); ids[0] = root;
    let freshFrom = 0;
    const path = new Array(depth).fill(0);
    for (;;) {
      const w = new World(cfg);
      const recs = await w.history(path.map((i) => alphabet[i]));
      execs += w.executions;
      for (let i = 0; i < depth; i++) {
        if (i + 1 > freshFrom) ids[i + 1] = out.add(ids[i], recs[i]);
        else if (!sameObs(out.nodes[ids[i + 1] - 1], recs[i])) nondet++;
      }
      let i = depth - 1;
      while (i >= 0 && path[i] === k - 1) { path[i] = 0; i--; }
      if (i < 0) break;
      path[i]++; freshFrom = i;
    }
  }
  out.write();
  console.log(JSON.stringify({ nodes: out.nodes.length, executions: execs, nondeterministic: nondet }));
}

async function cmdScripts(path, outPath) {
  const out = new Out(outPath);
  let execs = 0;
  for (const sc of JSON.parse(fs.readFileSync(path, 'utf8'))) {
    const w = new World(sc.config);
    let cur = out.add(1, resetRec(sc.config));
    for (const rec of await w.history(sc.events)) cur = out.add(cur, rec);
    execs += w.executions;
  }
  out.write();
  console.log(JSON.stringify({ nodes: out.nodes.length, executions: execs }));
}

async function cmdTrie(path, outPath) {
  const out = new Out(outPath);
  const roots = new Map(), kids = new Map();
  let execs = 0, nondet = 0;
  for (const sc of JSON.parse(fs.readFileSync(path, 'utf8'))) {
    const ck = JSON.stringify(sorted(sc.config));
    if (!roots.has(ck)) roots.set(ck, out.add(1, resetRec(sc.config)));
    const w = new World(sc.config);
    const recs = await w.history(sc.events);
    execs += w.executions;
    let cur = roots.get(ck);
    sc.events.forEach((e, i) => {
      const key = cur + '|' + JSON.stringify(sorted(e));
      let nid = kids.get(key);
      if (nid === undefined) { nid = out.add(cur, recs[i]); kids.set(key, nid); }
      else if (!sameObs(out.nodes[nid - 1], recs[i])) nondet++;
      cur = nid;
    });
  }
  out.write();
  console.log(JSON.stringify({ nodes: out.nodes.length, executions: execs, nondeterministic: nondet }));
}

// ------------------------------------------------------------------ traffic filter
/** the destination as the hooks hand it over: URL.host (host:port, IPv6 literals in brackets); what a URL cannot carry goes as typed */
function handedOver(h) {
  try {
    const u = new URL('http://' + (h.includes(':') ? '[' + h + ']' : h) + ':8080/');
    return u.host;
  } catch (e) {
    return h;
  }
}

async function cmdFilter(path, outPath) {
  const spec = JSON.parse(fs.readFileSync(path, 'utf8'));
  const { TrafficFilter } = await import(SRC + 'trafficFilter.ts');
  const wired = Boolean(spec.wired), rounds = spec.rounds || 1;
  const lines = [JSON.stringify({ ev: 'config', impl: 'ts', wired })];
  let n = 0, ctorRaises = 0;
  for (const cfg of spec.configs) {
    const a = cfg.allow.map((x) => x.raw).join(','), b = cfg.block.map((x) => x.raw).join(',');
    const envform = cfg.envform || 'normal';          // "allow-empty": LUNAR_ALLOW_LIST is SET to the empty string
    if (a === '' && envform !== 'allow-empty') delete process.env.LUNAR_ALLOW_LIST; else process.env.LUNAR_ALLOW_LIST = a;       // unset for "" (as py/c19_exec.py)
    if (b === '') delete process.env.LUNAR_BLOCK_LIST; else process.env.LUNAR_BLOCK_LIST = b;
    let tf = null, ctor = null, world = null;
    try {
      TrafficFilter._instance = null;
      tf = TrafficFilter.getInstance();            // private constructor: parseList(process.env...) + validation
      if (wired) world = new World({ default: true });       // LunarInterceptor takes TrafficFilter.getInstance() in its field initializer
    } catch (e) { ctor = e; ctorRaises++; }
    for (let rnd = 0; rnd < rounds; rnd++) {
      for (const h of spec.hosts) {
        for (const header of spec.headers) {
          const rec = { ev: 'case', impl: 'ts', allow: cfg.allow, block: cfg.block, host: h.h, hlow: h.hlow, hcanon: h.hcanon, kind: h.kind,
                        ip: h.ip, ip6: h.ip6, rsv: h.rsv, header, round: rnd, exc: '', stage: '', envform, passed: handedOver(h.h) };
          if (ctor) { rec.res = 'raise'; rec.exc = String(ctor && ctor.name); rec.stage = 'construct'; }
          else {
            const hv = header === 'absent' ? undefined : { 'x-lunar-allow': header === 'blank' ? '' : header, accept: '*/*' };
            try {
              let r;
              if (wired) {
                const id = 'f' + (++callSeq);
                const pl = { id, out: 'ok', kind: '', gatewaySeen: false, directLegs: 0, allowHeaderReachedNetwork: false, thrown: null, gate: null };
                plans.set(id, pl);
                const headers = { ...(hv || {}), 'x-x04-call': id };
                await globalThis.fetch('http://' + rec.passed + '/v1/x', { headers });
                plans.delete(id);
                r = pl.gatewaySeen;
              } else {
                r = tf.isAllowed(rec.passed, hv);
              }
              rec.res = r === true ? 'yes' : (r === false ? 'no' : 'other');
            } catch (e) { rec.res = 'raise'; rec.exc = String(e && e.name); rec.stage = 'decide'; }
          }
          lines.push(JSON.stringify(sorted(rec)));
          n++;
        }
      }
    }
  }
  fs.writeFileSync(outPath, lines.join('\n') + '\n');
  console.log(JSON.stringify({ cases: n, constructor_raises: ctorRaises }));
}

// ------------------------------------------------------------------ main
const [cmd, a1, a2] = process.argv.slice(2);
await bootstrap();
if (cmd === 'tree') await cmdTree(a1, a2);
else if (cmd === 'scripts') await cmdScripts(a1, a2);
else if (cmd === 'trie') await cmdTrie(a1, a2);
else if (cmd === 'filter') await cmdFilter(a1, a2);
else { console.error('usage: exec.mjs tree|scripts|trie|filter <in.json> <out.ndjson>'); process.exit(2); }
process.exit(0);
