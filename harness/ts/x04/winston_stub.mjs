// stand-in for the npm package 'winston' (logging only): every level is a no-op
const noop = () => {};
export function createLogger(opts) {
  return { level: (opts && opts.level) || 'info', debug: noop, info: noop, warn: noop, error: noop, verbose: noop,
           isDebugEnabled: () => false, isLevelEnabled: () => false };
}
export const transports = { Console: class Console {} };
export const format = { combine: (...a) => a, timestamp: () => ({}), printf: (f) => f };
export default { createLogger, transports, format };
