import { register } from 'node:module';
register('./loader.mjs', import.meta.url);
