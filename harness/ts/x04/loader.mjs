// X04 harness: module-resolution hooks so that node (>= 22.7, --experimental-transform-types) runs the TypeScript sources of
// interceptors/lunar-ts-interceptor/src unchanged and without node_modules:
//   - extensionless relative imports between the .ts files ('./logger') resolve to './logger.ts'
//   - the npm dependency 'winston' (not installed, cannot be fetched) resolves to a no-op logger stand-in
import { existsSync } from 'node:fs';
import { fileURLToPath, pathToFileURL } from 'node:url';
import { dirname, resolve as pathResolve } from 'node:path';

const here = dirname(fileURLToPath(import.meta.url));

export async function resolve(specifier, context, nextResolve) {
  if (specifier === 'winston') {
    return { url: pathToFileURL(pathResolve(here, 'winston_stub.mjs')).href, shortCircuit: true };
  }
  if ((specifier.startsWith('./') || specifier.startsWith('../')) && context.parentURL && context.parentURL.endsWith('.ts')) {
    const base = pathResolve(dirname(fileURLToPath(context.parentURL)), specifier);
    if (!existsSync(base) && existsSync(base + '.ts')) {
      return { url: pathToFileURL(base + '.ts').href, shortCircuit: true };
    }
  }
  return nextResolve(specifier, context);
}
