module verifharness

go 1.22.0

require (
	github.com/negasus/haproxy-spoe-go v1.0.5
	github.com/rs/zerolog v1.31.0
	go.opentelemetry.io/otel/metric v1.21.0
	lunar/aggregation-plugin v0.0.0
	lunar/engine v0.0.0
	lunar/shared-model v0.0.0
	lunar/toolkit-core v0.0.0
)

require (
	github.com/PaesslerAG/gval v1.0.0 // indirect
	github.com/PaesslerAG/jsonpath v0.1.1 // indirect
	github.com/aavaz-ai/pii-scrubber v0.0.0-20220812094047-3fa450ab6973 // indirect
	github.com/anshal21/go-worker v1.1.0 // indirect
	github.com/beorn7/perks v1.0.1 // indirect
	github.com/cenkalti/backoff/v4 v4.2.1 // indirect
	github.com/cespare/xxhash/v2 v2.2.0 // indirect
	github.com/deckarep/golang-set/v2 v2.8.0 // indirect
	github.com/dgryski/go-rendezvous v0.0.0-20200823014737-9f7001d12a5f // indirect
	github.com/dlclark/regexp2 v1.11.4 // indirect
	github.com/dop251/goja v0.0.0-20250309171923-bcd7cc6bf64c // indirect
	github.com/gabriel-vasile/mimetype v1.4.3 // indirect
	github.com/go-logr/logr v1.4.2 // indirect
	github.com/go-logr/stdr v1.2.2 // indirect
	github.com/go-playground/locales v0.14.1 // indirect
	github.com/go-playground/universal-translator v0.18.1 // indirect
	github.com/go-playground/validator/v10 v10.16.0 // indirect
	github.com/go-sourcemap/sourcemap v2.1.3+incompatible // indirect
	github.com/goccy/go-json v0.10.2 // indirect
	github.com/golang/protobuf v1.5.4 // indirect
	github.com/google/pprof v0.0.0-20230207041349-798e818bf904 // indirect
	github.com/google/uuid v1.6.0 // indirect
	github.com/gorilla/websocket v1.5.1 // indirect
	github.com/grpc-ecosystem/grpc-gateway/v2 v2.18.1 // indirect
	github.com/leodido/go-urn v1.2.4 // indirect
	github.com/mattn/go-colorable v0.1.13 // indirect
	github.com/mattn/go-isatty v0.0.20 // indirect
	github.com/matttproud/golang_protobuf_extensions/v2 v2.0.0 // indirect
	github.com/ohler55/ojg v1.26.1 // indirect
	github.com/pkg/errors v0.9.1 // indirect
	github.com/pkoukk/tiktoken-go v0.1.7 // indirect
	github.com/prometheus/client_golang v1.17.0 // indirect
	github.com/prometheus/client_model v0.5.0 // indirect
	github.com/prometheus/common v0.45.0 // indirect
	github.com/prometheus/procfs v0.12.0 // indirect
	github.com/redis/go-redis/v9 v9.3.0 // indirect
	github.com/samber/lo v1.44.0 // indirect
	github.com/valyala/fastjson v1.6.4 // indirect
	go.opentelemetry.io/contrib/propagators/b3 v1.21.0 // indirect
	go.opentelemetry.io/otel v1.21.0 // indirect
	go.opentelemetry.io/otel/exporters/otlp/otlptrace v1.21.0 // indirect
	go.opentelemetry.io/otel/exporters/otlp/otlptrace/otlptracegrpc v1.21.0 // indirect
	go.opentelemetry.io/otel/exporters/prometheus v0.44.0 // indirect
	go.opentelemetry.io/otel/sdk v1.21.0 // indirect
	go.opentelemetry.io/otel/sdk/metric v1.21.0 // indirect
	go.opentelemetry.io/otel/trace v1.21.0 // indirect
	go.opentelemetry.io/proto/otlp v1.0.0 // indirect
	golang.org/x/crypto v0.24.0 // indirect
	golang.org/x/exp v0.0.0-20231214170342-aacd6d4b4611 // indirect
	golang.org/x/net v0.26.0 // indirect
	golang.org/x/sys v0.30.0 // indirect
	golang.org/x/text v0.16.0 // indirect
	google.golang.org/genproto/googleapis/api v0.0.0-20231212172506-995d672761c0 // indirect
	google.golang.org/genproto/googleapis/rpc v0.0.0-20231212172506-995d672761c0 // indirect
	google.golang.org/grpc v1.60.0 // indirect
	google.golang.org/protobuf v1.34.2 // indirect
	gopkg.in/yaml.v2 v2.4.0 // indirect
	gopkg.in/yaml.v3 v3.0.1 // indirect
)

replace lunar/engine => /repo/proxy/src/services/lunar-engine

replace lunar/toolkit-core => /repo/proxy/src/libs/toolkit-core

replace lunar/shared-model => /repo/proxy/src/libs/shared-model

replace lunar/aggregation-plugin => /repo/proxy/src/services/aggregation-output-plugin
