// Package vh holds the pieces shared by the conformance harnesses: NDJSON trace
// writer, JSON helpers, a global event sequence, and a lock-step clock.
package vh

import (
	"bufio"
	"encoding/json"
	"fmt"
	"os"
	"sort"
	"sync"
	"sync/atomic"
	"time"

	"github.com/rs/zerolog"
)

// Quiet silences the engine's logging (it is not part of any observation).
func Quiet() { zerolog.SetGlobalLevel(zerolog.Disabled) }

func Die(format string, a ...any) {
	fmt.Fprintf(os.Stderr, "harness: "+format+"\n", a...)
	os.Exit(3)
}

func ReadJSON(path string, v any) {
	b, err := os.ReadFile(path)
	if err != nil {
		Die("read %s: %v", path, err)
	}
	if err := json.Unmarshal(b, v); err != nil {
		Die("parse %s: %v", path, err)
	}
}

func WriteJSON(path string, v any) {
	b, err := json.Marshal(v)
	if err != nil {
		Die("marshal: %v", err)
	}
	if err := os.WriteFile(path, b, 0o644); err != nil {
		Die("write %s: %v", path, err)
	}
}

// Ev is one trace event.
type Ev map[string]any

// Trace collects events; events added concurrently carry a global sequence
// number taken from one atomic counter and are written in that order.
type Trace struct {
	mu  sync.Mutex
	evs []seqEv
	seq atomic.Int64
}

type seqEv struct {
	seq int64
	ev  Ev
}

func NewTrace() *Trace { return &Trace{} }

// Add appends an event, stamping it with the next global sequence number.
func (t *Trace) Add(ev Ev) {
	s := t.seq.Add(1)
	t.mu.Lock()
	t.evs = append(t.evs, seqEv{s, ev})
	t.mu.Unlock()
}

// Stamp reserves a sequence number now for an event whose content is completed later.
func (t *Trace) Stamp() int64 { return t.seq.Add(1) }

func (t *Trace) AddAt(seq int64, ev Ev) {
	t.mu.Lock()
	t.evs = append(t.evs, seqEv{seq, ev})
	t.mu.Unlock()
}

func (t *Trace) Len() int { t.mu.Lock(); defer t.mu.Unlock(); return len(t.evs) }

func (t *Trace) Write(path string) {
	t.mu.Lock()
	defer t.mu.Unlock()
	sort.SliceStable(t.evs, func(i, j int) bool { return t.evs[i].seq < t.evs[j].seq })
	f, err := os.Create(path)
	if err != nil {
		Die("create %s: %v", path, err)
	}
	w := bufio.NewWriter(f)
	for _, e := range t.evs {
		b, err := json.Marshal(e.ev)
		if err != nil {
			Die("marshal event: %v", err)
		}
		w.Write(b)
		w.WriteByte('\n')
	}
	w.Flush()
	f.Close()
}

// ---------------------------------------------------------------------------
// StepClock: a clock.Clock whose time only moves when the driver says so and
// which lets the driver see which goroutines are blocked on timers.

type stepTimer struct {
	at time.Time
	ch chan time.Time
	id int64
}

type StepClock struct {
	mu     sync.Mutex
	now    time.Time
	timers []*stepTimer
	nextID int64
	cond   *sync.Cond
}

func NewStepClock(start time.Time) *StepClock {
	c := &StepClock{now: start}
	c.cond = sync.NewCond(&c.mu)
	return c
}

func (c *StepClock) Now() time.Time { c.mu.Lock(); defer c.mu.Unlock(); return c.now }
func (c *StepClock) Since(t time.Time) time.Duration { return c.Now().Sub(t) }
func (c *StepClock) Until(t time.Time) time.Duration { return t.Sub(c.Now()) }
func (c *StepClock) Sleep(d time.Duration)           { <-c.After(d) }

func (c *StepClock) After(d time.Duration) <-chan time.Time {
	c.mu.Lock()
	defer c.mu.Unlock()
	ch := make(chan time.Time, 1)
	if d <= 0 {
		ch <- c.now
		return ch
	}
	c.nextID++
	c.timers = append(c.timers, &stepTimer{at: c.now.Add(d), ch: ch, id: c.nextID})
	c.cond.Broadcast()
	return ch
}

// Pending returns the number of armed timers.
func (c *StepClock) Pending() int { c.mu.Lock(); defer c.mu.Unlock(); return len(c.timers) }

// TimersCreated returns how many timers were ever armed.
func (c *StepClock) TimersCreated() int64 { c.mu.Lock(); defer c.mu.Unlock(); return c.nextID }

// WaitTimersCreated blocks until at least n timers were ever armed (or timeout).
func (c *StepClock) WaitTimersCreated(n int64, timeout time.Duration) bool {
	deadline := time.Now().Add(timeout)
	for {
		if c.TimersCreated() >= n {
			return true
		}
		if time.Now().After(deadline) {
			return false
		}
		time.Sleep(200 * time.Microsecond)
	}
}

// NextTimer returns the instant of the earliest armed timer.
func (c *StepClock) NextTimer() (time.Time, bool) {
	c.mu.Lock()
	defer c.mu.Unlock()
	if len(c.timers) == 0 {
		return time.Time{}, false
	}
	m := c.timers[0].at
	for _, t := range c.timers[1:] {
		if t.at.Before(m) {
			m = t.at
		}
	}
	return m, true
}

// Set moves the clock to t, firing every timer due at or before t in time order
// (ties in creation order). Returns the number fired.
func (c *StepClock) Set(t time.Time) int {
	fired := 0
	for {
		c.mu.Lock()
		idx := -1
		for i, tm := range c.timers {
			if !tm.at.After(t) && (idx < 0 || tm.at.Before(c.timers[idx].at) ||
				(tm.at.Equal(c.timers[idx].at) && tm.id < c.timers[idx].id)) {
				idx = i
			}
		}
		if idx < 0 {
			if t.After(c.now) {
				c.now = t
			}
			c.mu.Unlock()
			return fired
		}
		tm := c.timers[idx]
		c.timers = append(c.timers[:idx], c.timers[idx+1:]...)
		if tm.at.After(c.now) {
			c.now = tm.at
		}
		now := c.now
		c.mu.Unlock()
		tm.ch <- now
		fired++
	}
}

func (c *StepClock) Advance(d time.Duration) int { return c.Set(c.Now().Add(d)) }
