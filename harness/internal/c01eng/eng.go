// Package c01eng builds a real flows-mode engine (streams.Stream) from YAML files
// written into a temporary directory and drives it on the stock mock clock.
// Used by the executors of C01 (fixed-window quotas) and C02 (concurrency quotas).
// Nothing here judges an outcome: it only projects what the engine answered.
package c01eng

import (
	"context"
	"fmt"
	"os"
	"path/filepath"
	"time"

	"lunar/engine/actions"
	lunar_messages "lunar/engine/messages"
	"lunar/engine/streams"
	stream_config "lunar/engine/streams/config"
	lunar_context "lunar/engine/streams/lunar-context"
	public_types "lunar/engine/streams/public-types"
	stream_types "lunar/engine/streams/types"
	"lunar/engine/utils/environment"
	"lunar/toolkit-core/clock"
	context_manager "lunar/toolkit-core/context-manager"
)

// Engine is one real engine instance plus the mock clock it reads.
type Engine struct {
	S      *streams.Stream
	Clk    *clock.MockClock
	Dir    string
	cancel context.CancelFunc
	shared public_types.SharedStateI[[]byte]
}

// WriteFiles materialises a {relative path: content} map under a fresh temp dir.
func WriteFiles(files map[string]string) (string, error) {
	dir, err := os.MkdirTemp("", "c01eng-")
	if err != nil {
		return "", err
	}
	for _, sub := range []string{"flows", "quotas", "path_params"} {
		if err := os.MkdirAll(filepath.Join(dir, sub), 0o755); err != nil {
			return "", err
		}
	}
	for rel, content := range files {
		p := filepath.Join(dir, rel)
		if err := os.MkdirAll(filepath.Dir(p), 0o755); err != nil {
			return "", err
		}
		if err := os.WriteFile(p, []byte(content), 0o644); err != nil {
			return "", err
		}
	}
	return dir, nil
}

// New builds and initialises an engine from dir at mock instant `at`.
// A previous engine's background goroutines are stopped through the context
// held by the context manager (they select on it).
func New(dir string, at time.Time, prev *Engine) (*Engine, error) {
	if prev != nil && prev.cancel != nil {
		prev.cancel()
	}
	if os.Getenv("LUNAR_PROXY_PROCESSORS_DIRECTORY") == "" {
		environment.SetProcessorsDirectory(filepath.Join(os.Getenv("VERIF_REPO"),
			"proxy/src/services/lunar-engine/streams/processors/registry"))
	}
	ctx, cancel := context.WithCancel(context.Background())
	cm := context_manager.Get()
	cm.WithContext(ctx)
	cm.SetMockClock()
	clk := cm.GetMockClock()
	clk.Set(at)
	s, err := streams.NewValidationStream(dir)
	if err != nil {
		cancel()
		return nil, fmt.Errorf("NewValidationStream: %w", err)
	}
	if err := s.Initialize(); err != nil {
		cancel()
		return nil, fmt.Errorf("Initialize: %w", err)
	}
	return &Engine{S: s, Clk: clk, Dir: dir, cancel: cancel, shared: lunar_context.NewMemoryState[[]byte]()}, nil
}

func (e *Engine) Close() {
	if e.cancel != nil {
		e.cancel()
	}
}

// ReqResult is the projection of what the engine answered to a request.
type ReqResult struct {
	Early  bool // an early-return action is present
	Status int  // its status (0 when none)
	NAct   int
	Err    string
}

// Request runs the request flows for one transaction.
func (e *Engine) Request(id, method, url string, headers map[string]string) ReqResult {
	h := map[string]string{}
	for k, v := range headers {
		h[k] = v
	}
	api := stream_types.NewRequestAPIStream(lunar_messages.OnRequest{
		ID: id, SequenceID: id, Method: method, Scheme: "https", URL: url, Headers: h,
		Time: e.Clk.Now(),
	}, e.shared)
	acts := &stream_config.StreamActions{
		Request:  &stream_config.RequestStream{},
		Response: &stream_config.ResponseStream{},
	}
	var res ReqResult
	if err := e.S.ExecuteFlow(api, acts); err != nil {
		res.Err = err.Error()
	}
	res.NAct = len(acts.Request.Actions)
	for _, a := range acts.Request.Actions {
		if a != nil && a.IsEarlyReturnType() {
			res.Early = true
			if er, ok := a.(*actions.EarlyResponseAction); ok {
				res.Status = er.Status
			}
		}
	}
	return res
}

// Response runs the response flows for one transaction.
func (e *Engine) Response(id, method, url string, status int, headers map[string]string) string {
	h := map[string]string{}
	for k, v := range headers {
		h[k] = v
	}
	api := stream_types.NewResponseAPIStream(lunar_messages.OnResponse{
		ID: id, SequenceID: id, Method: method, URL: url, Status: status, Headers: h,
		Time: e.Clk.Now(),
	}, e.shared)
	acts := &stream_config.StreamActions{
		Request:  &stream_config.RequestStream{},
		Response: &stream_config.ResponseStream{},
	}
	if err := e.S.ExecuteFlow(api, acts); err != nil {
		return err.Error()
	}
	return ""
}
