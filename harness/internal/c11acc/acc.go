// Package c11acc builds a real config.TxnPoliciesAccessor for the conformance harnesses of C11 and C20:
// loopback fake of the HAProxy admin / health API, labelled policies files, mock clock of the context manager.
package c11acc

import (
	"fmt"
	"net"
	"net/http"
	"os"
	"path/filepath"
	"strings"
	"sync"
	"time"

	"lunar/engine/config"
	contextmanager "lunar/toolkit-core/context-manager"

	"verifharness/internal/vh"
)

// FakeHAProxy answers every admin and health request with 200 and remembers the calls.
type FakeHAProxy struct {
	mu     sync.Mutex
	Calls  []string
	failIn int // > 0: the failIn-th admin call from now is refused with 503
	holdN  int // > 0: the next holdN "PUT /manage_all" calls are held until released
	held   chan chan struct{}
}

// HoldManageAll makes the next n "PUT /manage_all" calls (the call an update waits for before it installs its version)
// block; each held call hands its release channel to Held().
func (f *FakeHAProxy) HoldManageAll(n int) {
	f.mu.Lock()
	f.holdN = n
	if f.held == nil {
		f.held = make(chan chan struct{}, 16)
	}
	f.mu.Unlock()
}

// Held delivers the release channel of the next held call.
func (f *FakeHAProxy) Held() <-chan chan struct{} {
	f.mu.Lock()
	defer f.mu.Unlock()
	if f.held == nil {
		f.held = make(chan chan struct{}, 16)
	}
	return f.held
}

// FailNext arms (k > 0) or disarms (k = 0) the refusal of the k-th admin call from now.
func (f *FakeHAProxy) FailNext(k int) { f.mu.Lock(); f.failIn = k; f.mu.Unlock() }

func (f *FakeHAProxy) ServeHTTP(w http.ResponseWriter, r *http.Request) {
	f.mu.Lock()
	f.Calls = append(f.Calls, r.Method+" "+r.URL.Path)
	refuse := false
	if r.Method != http.MethodGet && f.failIn > 0 {
		f.failIn--
		refuse = f.failIn == 0
	}
	var rel chan struct{}
	if r.Method == http.MethodPut && r.URL.Path == "/manage_all" && f.holdN > 0 {
		f.holdN--
		rel = make(chan struct{})
	}
	held := f.held
	f.mu.Unlock()
	if rel != nil {
		held <- rel
		<-rel
	}
	if refuse {
		w.WriteHeader(http.StatusServiceUnavailable)
		return
	}
	w.WriteHeader(http.StatusOK)
	if r.Method == http.MethodGet {
		// health check: not empty - the engine reads the body and treats the EOF of an empty one as a failed check
		_, _ = w.Write([]byte("ok\n"))
	}
	// admin calls (PUT / DELETE): empty body - the engine never closes response bodies, and only a connection whose
	// response had no body goes back to the idle pool instead of leaking
}

func (f *FakeHAProxy) Count() int { f.mu.Lock(); defer f.mu.Unlock(); return len(f.Calls) }

// StartFake listens on `localhost:port` for both address families (the engine dials "localhost").
// The ports are those the engine read from HAPROXY_MANAGE_ENDPOINTS_PORT / LUNAR_HEALTHCHECK_PORT at package init.
func StartFake(ports ...string) *FakeHAProxy {
	f := &FakeHAProxy{}
	http.DefaultClient.Timeout = 30 * time.Second // the engine's admin calls: a stuck call must fail, not hang the harness
	seen := map[string]bool{}
	for _, p := range ports {
		if p == "" || seen[p] {
			continue
		}
		seen[p] = true
		n := 0
		for _, host := range []string{"127.0.0.1", "[::1]"} {
			ln, err := net.Listen("tcp", host+":"+p)
			if err != nil {
				continue
			}
			n++
			go func() { _ = http.Serve(ln, f) }()
		}
		if n == 0 {
			vh.Die("fake HAProxy: cannot listen on localhost:%s", p)
		}
	}
	return f
}

// PoliciesYAML is a valid policies file whose content identifies its version: a disabled global remedy named
// after the label, and one enabled global diagnosis (so that the diagnosis-free variant is distinguishable and
// the proxy is told to manage everything).
func PoliciesYAML(label string) []byte {
	remedy := func(indent string) string {
		return fmt.Sprintf(`%[1]s- name: "%[2]s"
%[1]s  enabled: false
%[1]s  config:
%[1]s    fixed_response:
%[1]s      status_code: 418
`, indent, label)
	}
	if NoDiagnosis {
		// the shape of the configuration is part of the label: "" = the empty configuration (fresh install / everything
		// removed), "E:x" = endpoint policies only, "X:x" = global and endpoint policies, anything else = global only;
		// every plugin is disabled
		short := label
		if i := strings.Index(label, ":"); i >= 0 {
			short = label[i+1:]
		}
		endpoint := fmt.Sprintf("  - url: \"api.test/%s\"\n    method: GET\n    remedies:\n%s    diagnosis: []\n", short, remedy("      "))
		switch {
		case label == "":
			return []byte("global:\n  remedies: []\n  diagnosis: []\nendpoints: []\n")
		case strings.HasPrefix(label, "E:"):
			return []byte("global:\n  remedies: []\n  diagnosis: []\nendpoints:\n" + endpoint)
		case strings.HasPrefix(label, "X:"):
			return []byte("global:\n  remedies:\n" + remedy("    ") + "  diagnosis: []\nendpoints:\n" + endpoint)
		}
		return []byte("global:\n  remedies:\n" + remedy("    ") + "  diagnosis: []\nendpoints: []\n")
	}
	return []byte(fmt.Sprintf(`global:
  remedies:
    - name: "%s"
      enabled: false
      config:
        fixed_response:
          status_code: 418
  diagnosis:
    - name: "diag"
      enabled: true
      config:
        void: {}
      export: "file"
endpoints: []
`, label))
}

// NoDiagnosis: policies files without any enabled plugin (handler histories: the diagnosis worker and its timers stay
// out of the way).
var NoDiagnosis bool

// Describe projects policies onto (label, built by a revert to the diagnosis-free configuration).
func Describe(p *config.PoliciesData) (string, bool) {
	label := ""
	if len(p.Config.Global.Remedies) > 0 {
		label = p.Config.Global.Remedies[0].Name
	} else if len(p.Config.Endpoints) > 0 && len(p.Config.Endpoints[0].Remedies) > 0 {
		label = p.Config.Endpoints[0].Remedies[0].Name
	}
	return label, p.VerifDiagnosisFree()
}

// Fixture is one accessor with its files.
type Fixture struct {
	Dir      string
	Accessor *config.TxnPoliciesAccessor
}

func (fx *Fixture) PoliciesPath() string { return filepath.Join(fx.Dir, "policies.yaml") }

func (fx *Fixture) WritePoliciesFile(label string) {
	if err := os.WriteFile(fx.PoliciesPath(), PoliciesYAML(label), 0o644); err != nil {
		vh.Die("write policies: %v", err)
	}
}

// NewRaw is New with a given policies file.
func NewRaw(dir string, policies []byte, start time.Time) (*Fixture, config.BuildResult) {
	if err := os.MkdirAll(dir, 0o755); err != nil {
		vh.Die("mkdir: %v", err)
	}
	fx := &Fixture{Dir: dir}
	os.Setenv("LUNAR_PROXY_POLICIES_CONFIG", fx.PoliciesPath())
	os.Setenv("LUNAR_PROXY_CONFIG_DIR", dir)
	if err := os.WriteFile(fx.PoliciesPath(), policies, 0o644); err != nil {
		vh.Die("write policies: %v", err)
	}
	contextmanager.Get().SetMockClock()
	contextmanager.Get().GetMockClock().Set(start)
	res, err := config.BuildInitialFromFile()
	if err != nil {
		vh.Die("BuildInitialFromFile: %v", err)
	}
	fx.Accessor = res.Accessor
	return fx, res
}

// New builds a fresh accessor through the real start-up path config.BuildInitialFromFile on a fresh mock clock.
func New(dir, label string, start time.Time) *Fixture {
	if err := os.MkdirAll(dir, 0o755); err != nil {
		vh.Die("mkdir: %v", err)
	}
	fx := &Fixture{Dir: dir}
	os.Setenv("LUNAR_PROXY_POLICIES_CONFIG", fx.PoliciesPath())
	os.Setenv("LUNAR_PROXY_CONFIG_DIR", dir)
	fx.WritePoliciesFile(label)
	contextmanager.Get().SetMockClock()
	contextmanager.Get().GetMockClock().Set(start)
	res, err := config.BuildInitialFromFile()
	if err != nil {
		vh.Die("BuildInitialFromFile: %v", err)
	}
	fx.Accessor = res.Accessor
	return fx
}
