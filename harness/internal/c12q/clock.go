package c12q

import (
	"runtime"
	"strings"
	"sync"
	"sync/atomic"
	"time"
)

// Clock is a lock-step clock.Clock whose timers can be made to lag: SetNow
// moves the time without delivering anything (the goroutines sleeping on the
// clock have not been scheduled yet), FireDue delivers what is due.
type Clock struct {
	mu      sync.Mutex
	now     time.Time
	timers  []*timer
	created int64

	// a hook-free yield point: the next Now() called from a goroutine whose stack mentions every
	// string of holdMatch blocks until ReleaseNow (code that reads the clock inside a critical
	// section can so be held inside it)
	holdArmed atomic.Bool
	holdHit   atomic.Bool
	holdMatch []string
	holdCh    chan struct{}
}

type timer struct {
	at time.Time
	ch chan time.Time
	id int64
}

func NewClock(start time.Time) *Clock { return &Clock{now: start} }

func (c *Clock) Now() time.Time {
	if c.holdArmed.Load() {
		c.maybeHold()
	}
	c.mu.Lock()
	defer c.mu.Unlock()
	return c.now
}

func (c *Clock) maybeHold() {
	buf := make([]byte, 16384)
	st := string(buf[:runtime.Stack(buf, false)])
	for _, m := range c.holdMatch {
		if !strings.Contains(st, m) {
			return
		}
	}
	if !c.holdArmed.CompareAndSwap(true, false) {
		return
	}
	ch := c.holdCh
	c.holdHit.Store(true)
	<-ch
}

// HoldNow arms the yield point; Held reports whether a goroutine is blocked in it; ReleaseNow disarms it
// and lets a blocked goroutine go on.
func (c *Clock) HoldNow(match ...string) {
	c.holdMatch, c.holdCh = match, make(chan struct{})
	c.holdHit.Store(false)
	c.holdArmed.Store(true)
}
func (c *Clock) Held() bool { return c.holdHit.Load() }
func (c *Clock) ReleaseNow() {
	c.holdArmed.Store(false)
	if c.holdCh != nil {
		close(c.holdCh)
		c.holdCh = nil
	}
	c.holdHit.Store(false)
}
func (c *Clock) Since(t time.Time) time.Duration { return c.Now().Sub(t) }
func (c *Clock) Until(t time.Time) time.Duration { return t.Sub(c.Now()) }
func (c *Clock) Sleep(d time.Duration)           { <-c.After(d) }

func (c *Clock) After(d time.Duration) <-chan time.Time {
	c.mu.Lock()
	defer c.mu.Unlock()
	ch := make(chan time.Time, 1)
	if d <= 0 {
		ch <- c.now
		return ch
	}
	c.created++
	c.timers = append(c.timers, &timer{at: c.now.Add(d), ch: ch, id: c.created})
	return ch
}

// Pending returns the number of armed timers; Created how many were ever armed.
func (c *Clock) Pending() int   { c.mu.Lock(); defer c.mu.Unlock(); return len(c.timers) }
func (c *Clock) Created() int64 { c.mu.Lock(); defer c.mu.Unlock(); return c.created }

// SetNow moves the clock to t without delivering any timer.
func (c *Clock) SetNow(t time.Time) {
	c.mu.Lock()
	if t.After(c.now) {
		c.now = t
	}
	c.mu.Unlock()
}

// FireDue delivers every timer due at or before the current time, in time order
// (ties in creation order), and returns how many were delivered.
func (c *Clock) FireDue() int {
	fired := 0
	for {
		c.mu.Lock()
		idx := -1
		for i, tm := range c.timers {
			if !tm.at.After(c.now) && (idx < 0 || tm.at.Before(c.timers[idx].at) ||
				(tm.at.Equal(c.timers[idx].at) && tm.id < c.timers[idx].id)) {
				idx = i
			}
		}
		if idx < 0 {
			c.mu.Unlock()
			return fired
		}
		tm := c.timers[idx]
		c.timers = append(c.timers[:idx], c.timers[idx+1:]...)
		now := c.now
		c.mu.Unlock()
		tm.ch <- now
		fired++
	}
}

// FireNext delivers one due timer - the oldest one (earliest instant, then creation order) or, with
// newestFirst, the youngest one - and reports whether there was one. Delivering the timers of one instant one
// at a time, each followed by a wait for quiescence, makes same-instant races a choice of the driver.
func (c *Clock) FireNext(newestFirst bool) bool {
	c.mu.Lock()
	idx := -1
	for i, tm := range c.timers {
		if tm.at.After(c.now) {
			continue
		}
		if idx < 0 {
			idx = i
			continue
		}
		b := c.timers[idx]
		older := tm.at.Before(b.at) || (tm.at.Equal(b.at) && tm.id < b.id)
		if older != newestFirst {
			idx = i
		}
	}
	if idx < 0 {
		c.mu.Unlock()
		return false
	}
	tm := c.timers[idx]
	c.timers = append(c.timers[:idx], c.timers[idx+1:]...)
	now := c.now
	c.mu.Unlock()
	tm.ch <- now
	return true
}

// Set moves the clock to t and delivers what is due.
func (c *Clock) Set(t time.Time) int { c.SetNow(t); return c.FireDue() }
