// Package c12q: scheduling helpers shared by the C12 and C10 executors.
//
// Quiesce decides "every goroutine of the code under test is blocked" from a
// stop-the-world goroutine dump, so the driver of a lock-step clock knows that
// every timer that will be armed has been armed and every woken goroutine has
// run to its next blocking point - without hooks in the code under test (so it
// keeps working when the implementation is restructured) and without sleeping.
package c12q

import (
	"bytes"
	"runtime"
	"strings"
	"time"
)

// G is one goroutine of a dump.
type G struct {
	State string // "chan receive", "select", "runnable", ...
	Stack string
}

// Dump returns all goroutines except the caller.
func Dump() []G {
	buf := make([]byte, 1<<16)
	for {
		n := runtime.Stack(buf, true)
		if n < len(buf) {
			buf = buf[:n]
			break
		}
		buf = make([]byte, 2*len(buf))
	}
	var out []G
	for i, blk := range bytes.Split(buf, []byte("\n\n")) {
		if i == 0 {
			continue // the caller comes first
		}
		s := string(blk)
		a := strings.Index(s, "[")
		b := strings.Index(s, "]")
		if !strings.HasPrefix(s, "goroutine ") || a < 0 || b < a {
			continue
		}
		st := s[a+1 : b]
		if c := strings.Index(st, ","); c >= 0 {
			st = st[:c]
		}
		out = append(out, G{State: st, Stack: s})
	}
	return out
}

// busy: anything that is not positively known to be a blocked state counts as able to run
// (running, runnable, syscall, preempted, copystack, GC assist wait, ...).
func busy(state string) bool {
	for _, p := range []string{"chan receive", "chan send", "select", "sleep", "semacquire", "sync.", "IO wait"} {
		if strings.HasPrefix(state, p) {
			return false
		}
	}
	return true
}

// Quiet reports whether no goroutine other than the caller can run.
func Quiet() bool {
	for _, g := range Dump() {
		if busy(g.State) {
			return false
		}
	}
	return true
}

// Quiesce yields until Quiet() holds; false on timeout (a harness failure, never a verdict).
func Quiesce(timeout time.Duration) bool {
	deadline := time.Now().Add(timeout)
	for i := 0; ; i++ {
		runtime.Gosched()
		if Quiet() {
			return true
		}
		if time.Now().After(deadline) {
			return false
		}
		if i > 50 {
			time.Sleep(50 * time.Microsecond)
		}
	}
}

// Count returns the number of goroutines in the given state whose stack mentions fn.
func Count(state, fn string) int {
	n := 0
	for _, g := range Dump() {
		if g.State == state && strings.Contains(g.Stack, fn) {
			n++
		}
	}
	return n
}
